// verifd: driver and worker of the runtime monitors (see /verif/DESIGN.md).
package main

import (
	"fmt"
	"os"

	"verif/fw"
	_ "verif/props"
)

func main() {
	if len(os.Args) < 2 {
		fmt.Println("usage: verifd run <Cxx> <tier> | replay <file> | worker ... | replay-case ...")
		os.Exit(3)
	}
	switch os.Args[1] {
	case "run":
		tier := "quick"
		if len(os.Args) > 3 {
			tier = os.Args[3]
		}
		os.Exit(fw.RunMain(os.Args[2], tier))
	case "replay":
		os.Exit(fw.ReplayMain(os.Args[2]))
	case "worker":
		os.Exit(fw.WorkerMain(os.Args[2:]))
	case "replay-case":
		os.Exit(fw.ReplayCaseMain(os.Args[2:]))
	default:
		if fn, ok := fw.SubCommands[os.Args[1]]; ok {
			os.Exit(fn(os.Args[2:]))
		}
		fmt.Println("unknown sub-command", os.Args[1])
		os.Exit(3)
	}
}
