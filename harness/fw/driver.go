package fw

import (
	"bytes"
	"context"
	"encoding/json"
	"fmt"
	"os"
	"os/exec"
	"path/filepath"
	"sort"
	"strconv"
	"strings"
	"sync"
	"time"
)

func seedFromEnv() int64 {
	if v := os.Getenv("VERIF_SEED"); v != "" {
		if n, err := strconv.ParseInt(v, 10, 64); err == nil {
			return n
		}
	}
	return 1
}

func selfExe() string {
	p, err := os.Executable()
	if err != nil {
		return os.Args[0]
	}
	return p
}

// WorkerMain runs one batch in this process (sub-command `worker`).
func WorkerMain(args []string) int {
	if len(args) < 7 {
		fmt.Fprintln(os.Stderr, "worker: bad args")
		return 3
	}
	p := Lookup(args[0])
	if p == nil {
		return 3
	}
	seed, _ := strconv.ParseInt(args[2], 10, 64)
	batch, _ := strconv.Atoi(args[3])
	nb, _ := strconv.Atoi(args[4])
	c := NewCtx(args[0], args[1], seed, batch, nb)
	j, err := os.OpenFile(args[6], os.O_CREATE|os.O_RDWR|os.O_TRUNC, 0o644)
	if err == nil {
		c.journal = j
	}
	limit := 300 * time.Second // a case normally takes milliseconds; generous because a forced GC can wait minutes on a saturated machine
	if v := os.Getenv("VERIF_CASE_TIMEOUT_S"); v != "" {
		if n, err := strconv.Atoi(v); err == nil {
			limit = time.Duration(n) * time.Second
		}
	}
	if wp, ok := p.(interface{ CaseTimeout() time.Duration }); ok {
		limit = wp.CaseTimeout()
	}
	StartCaseWatchdog(limit)
	p.RunBatch(c)
	return writeResult(args[5], c.finish())
}

// ReplayCaseMain re-executes one case read from a file (sub-command `replay-case`).
func ReplayCaseMain(args []string) int {
	if len(args) < 5 {
		return 3
	}
	p := Lookup(args[0])
	if p == nil {
		return 3
	}
	seed, _ := strconv.ParseInt(args[2], 10, 64)
	in, err := os.ReadFile(args[3])
	if err != nil {
		return 3
	}
	c := NewCtx(args[0], args[1], seed, -1, 0)
	c.Replay = true
	p.ReplayCase(c, json.RawMessage(bytes.TrimSpace(in)))
	return writeResult(args[4], c.finish())
}

func writeResult(path string, r *Result) int {
	b, err := json.Marshal(r)
	if err != nil {
		fmt.Fprintln(os.Stderr, "marshal result:", err)
		return 3
	}
	if err := os.WriteFile(path+".tmp", b, 0o644); err != nil {
		return 3
	}
	if err := os.Rename(path+".tmp", path); err != nil {
		return 3
	}
	return 0
}

func readResult(path string) (*Result, error) {
	b, err := os.ReadFile(path)
	if err != nil {
		return nil, err
	}
	var r Result
	if err := json.Unmarshal(b, &r); err != nil {
		return nil, err
	}
	return &r, nil
}

type childOutcome struct {
	res      *Result
	died     bool
	timedOut bool
	log      string
}

func runChild(timeout time.Duration, outFile string, args ...string) childOutcome {
	ctx, cancel := context.WithTimeout(context.Background(), timeout)
	defer cancel()
	cmd := exec.CommandContext(ctx, selfExe(), args...)
	var buf bytes.Buffer
	cmd.Stdout = &buf
	cmd.Stderr = &buf
	cmd.Stdin = nil
	cmd.Env = append(os.Environ(), "GOTRACEBACK=single")
	err := cmd.Run()
	o := childOutcome{log: tail(buf.String(), 3000)}
	if ctx.Err() != nil {
		o.timedOut = true
	}
	r, rerr := readResult(outFile)
	if rerr == nil && r.Done {
		o.res = r
		return o
	}
	if err != nil || rerr != nil {
		o.died = true
		// keep the full output of a dead child for diagnosis (not evidence)
		name := "died-" + strings.Join(args[:min(len(args), 5)], "-") + ".log"
		_ = os.WriteFile(filepath.Join(Root(), ".build", strings.ReplaceAll(name, "/", "_")), buf.Bytes(), 0o644)
	}
	return o
}

func tail(s string, n int) string {
	if len(s) <= n {
		return s
	}
	return "…" + s[len(s)-n:]
}

func replayInChild(p Property, tier string, seed int64, dir string, tag string, input json.RawMessage, timeout time.Duration) childOutcome {
	in := filepath.Join(dir, tag+".in")
	out := filepath.Join(dir, tag+".out")
	_ = os.WriteFile(in, input, 0o644)
	_ = os.Remove(out)
	return runChild(timeout, out, "replay-case", p.ID(), tier, strconv.FormatInt(seed, 10), in, out)
}

// Evidence is the evidence file (EVIDENCE.schema.json).
type Evidence struct {
	PropertyID  string         `json:"property_id"`
	Tier        string         `json:"tier"`
	Seed        int64          `json:"seed"`
	Level       string         `json:"level"`
	Coverage    map[string]any `json:"coverage"`
	Assumptions []string       `json:"assumptions"`
	WallS       float64        `json:"wall_s"`
	Violations  int            `json:"violations"`
}

func batchTimeout(tier string) time.Duration {
	if v := os.Getenv("VERIF_BATCH_TIMEOUT_S"); v != "" {
		if n, err := strconv.Atoi(v); err == nil {
			return time.Duration(n) * time.Second
		}
	}
	if tier == "thorough" {
		return 3 * time.Hour
	}
	return 20 * time.Minute
}

// RunMain is the driver (sub-command `run <prop> <tier>`).
func RunMain(propID, tier string) int {
	if t := os.Getenv("VERIF_TIER"); t == "quick" || t == "thorough" {
		tier = t
	}
	if tier != "thorough" {
		tier = "quick"
	}
	p := Lookup(propID)
	if p == nil {
		fmt.Printf("unknown property %s\n", propID)
		return 3
	}
	seed := seedFromEnv()
	start := time.Now()
	root := Root()
	dir, err := os.MkdirTemp(filepath.Join(root, ".build"), "run-"+propID+"-")
	if err != nil {
		fmt.Println("cannot create run dir:", err)
		return 3
	}
	defer os.RemoveAll(dir)
	_ = os.MkdirAll(filepath.Join(root, "evidence"), 0o755)
	_ = os.MkdirAll(filepath.Join(root, "replays"), 0o755)

	findings, err := LoadFindings()
	if err != nil {
		fmt.Println("cannot read known findings:", err)
		return 3
	}
	var open, fixed []Finding
	for _, f := range findings {
		if f.Prop != propID {
			continue
		}
		if f.Open {
			open = append(open, f)
		} else {
			fixed = append(fixed, f)
		}
	}

	inconclusive := []string{}
	var unmatched []Violation
	knownSeen := map[string]int{}
	counters := map[string]int64{}

	// 1. known findings: re-execute each witness.
	for i, f := range open {
		if len(f.Witness) == 0 {
			fmt.Printf("KNOWN-FINDING: property=%s %s %s (no witness recorded)\n", propID, f.ID, f.Text)
			continue
		}
		o := replayInChild(p, tier, seed, dir, fmt.Sprintf("kf%d", i), f.Witness, 5*time.Minute)
		still := false
		if o.res != nil {
			for _, v := range o.res.Violations {
				if Glob(f.Sig, v.Sig) {
					still = true
				} else {
					v.Detail = "while replaying witness of " + f.ID + ": " + v.Detail
					unmatched = append(unmatched, v)
				}
			}
		} else if o.died || o.timedOut {
			// a witness that kills its worker still fails (worker-death kinds are matched by sig too).
			still = Glob(f.Sig, "worker-death") || Glob(f.Sig, "hang")
			if !still {
				inconclusive = append(inconclusive, "witness of "+f.ID+" killed its worker: "+tail(o.log, 300))
			}
		}
		if still {
			fmt.Printf("KNOWN-FINDING: property=%s %s %s\n", propID, f.ID, f.Text)
			counters["known_findings_reconfirmed"]++
		} else {
			fmt.Printf("STALE-FINDING: property=%s %s witness no longer fails (%s)\n", propID, f.ID, f.Text)
			counters["known_findings_stale"]++
		}
	}
	// 2. fixed findings: regression cases, must not fail.
	for i, f := range fixed {
		if len(f.Witness) == 0 {
			continue
		}
		o := replayInChild(p, tier, seed, dir, fmt.Sprintf("fx%d", i), f.Witness, 5*time.Minute)
		counters["fixed_regressions_run"]++
		if o.res != nil {
			for _, v := range o.res.Violations {
				v.Detail = "regression of fixed finding (" + f.Commit + " " + f.Text + "): " + v.Detail
				unmatched = append(unmatched, v)
			}
		} else {
			b, _ := json.Marshal(map[string]any{"fixed_witness": f.Witness})
			unmatched = append(unmatched, Violation{Prop: propID, Kind: "worker-death", Sig: "worker-death",
				Input: b, Detail: "witness of fixed finding " + f.Commit + " killed the worker: " + tail(o.log, 500)})
		}
	}

	// 3. the batches.
	nb := p.NumBatches(tier)
	par := 16
	if v := os.Getenv("VERIF_PAR"); v != "" {
		if n, err := strconv.Atoi(v); err == nil && n > 0 {
			par = n
		}
	}
	if mp := p.MaxParallel(); mp > 0 && mp < par {
		par = mp
	}
	outcomes := make([]childOutcome, nb)
	sem := make(chan struct{}, par)
	var wg sync.WaitGroup
	for b := 0; b < nb; b++ {
		wg.Add(1)
		sem <- struct{}{}
		go func(b int) {
			defer wg.Done()
			defer func() { <-sem }()
			out := filepath.Join(dir, fmt.Sprintf("b%d.out", b))
			jr := filepath.Join(dir, fmt.Sprintf("b%d.journal", b))
			outcomes[b] = runChild(batchTimeout(tier), out, "worker", propID, tier,
				strconv.FormatInt(seed, 10), strconv.Itoa(b), strconv.Itoa(nb), out, jr)
		}(b)
	}
	wg.Wait()

	type digestRec struct {
		val   string
		batch int
	}
	digests := map[string]digestRec{}
	shapes := map[uint64]struct{}{}
	var evals int64
	var samples []any
	shapesCut := false
	for b, o := range outcomes {
		if o.res == nil {
			// worker died or timed out: replay the journaled case alone.
			jr := filepath.Join(dir, fmt.Sprintf("b%d.journal", b))
			jb, _ := os.ReadFile(jr)
			jb = bytes.TrimSpace(jb)
			what := "died"
			if o.timedOut {
				what = "timed out"
			}
			if len(jb) == 0 || !json.Valid(jb) {
				inconclusive = append(inconclusive, fmt.Sprintf("batch %d %s with no journaled case: %s", b, what, tail(o.log, 400)))
				continue
			}
			ro := replayInChild(p, tier, seed, dir, fmt.Sprintf("rj%d", b), jb, 3*time.Minute)
			switch {
			case ro.res != nil && len(ro.res.Violations) > 0:
				for _, v := range ro.res.Violations {
					v.Batch = b
					unmatched = append(unmatched, v)
				}
			case ro.res != nil:
				// the case is fine alone (a stall of the machine, not of the case): run the whole batch once more, now that
				// nothing else of this check is running; only if it is lost again does the run stay inconclusive
				out2 := filepath.Join(dir, fmt.Sprintf("b%d.retry.out", b))
				jr2 := filepath.Join(dir, fmt.Sprintf("b%d.retry.journal", b))
				o2 := runChild(batchTimeout(tier), out2, "worker", propID, tier, strconv.FormatInt(seed, 10), strconv.Itoa(b), strconv.Itoa(nb), out2, jr2)
				if o2.res != nil {
					counters["batches_rerun_after_unreproducible_death"]++
					o = o2
					break
				}
				inconclusive = append(inconclusive, fmt.Sprintf("batch %d %s twice; the journaled case of the first attempt does not reproduce alone: %s", b, what, tail(o.log, 400)))
			default:
				kind := "worker-death"
				if ro.timedOut {
					kind = "hang"
				}
				unmatched = append(unmatched, Violation{Prop: propID, Kind: kind, Sig: kind, Input: jb, Batch: b,
					Detail: "the process evaluating this case " + what + " and does so again when the case is replayed alone: " + tail(ro.log, 1200)})
			}
			if o.res == nil {
				continue
			}
		}
		evals += o.res.Evaluations
		for _, h := range o.res.Shapes {
			shapes[h] = struct{}{}
		}
		shapesCut = shapesCut || o.res.ShapesCut
		for k, v := range o.res.Counters {
			counters[k] += v
		}
		if len(samples) < 6 {
			for _, s := range o.res.Samples {
				if len(samples) < 6 {
					samples = append(samples, s)
				}
			}
		}
		unmatched = append(unmatched, o.res.Violations...)
		for k, v := range o.res.Digests {
			if prev, ok := digests[k]; ok && prev.val != v {
				jb, _ := json.Marshal(map[string]any{"digest_key": k, "batch_a": prev.batch, "batch_b": b})
				unmatched = append(unmatched, Violation{Prop: propID, Kind: "cross-process-diff", Sig: "cross-process-diff:" + k, Input: jb, Batch: b,
					Detail: fmt.Sprintf("processes with different histories produced different results for %q: batch %d -> %s, batch %d -> %s", k, prev.batch, prev.val, b, v)})
			} else if !ok {
				digests[k] = digestRec{v, b}
			}
		}
	}
	counters["cross_process_digests"] = int64(len(digests))

	// 4. match violations against open findings.
	var real []Violation
	for _, v := range unmatched {
		matched := false
		for _, f := range open {
			if Glob(f.Sig, v.Sig) {
				knownSeen[f.ID]++
				matched = true
				break
			}
		}
		if !matched {
			real = append(real, v)
		}
	}
	sort.SliceStable(real, func(i, j int) bool { return real[i].Sig < real[j].Sig })

	// 5. verdict + evidence.
	distinct := len(shapes)
	if distinct < p.MinNontrivial(tier) {
		inconclusive = append(inconclusive, fmt.Sprintf("only %d distinct non-trivial cases observed (minimum %d)", distinct, p.MinNontrivial(tier)))
	}
	rule := p.Rule()
	if shapesCut {
		rule += " (distinct count is a lower bound: per-batch shape table capped)"
	}
	cov := map[string]any{
		"evaluations":         evals,
		"distinct_nontrivial": distinct,
		"rule":                rule,
		"samples":             samples,
		"exhaustive":          p.Exhaustive(tier),
		"batches":             nb,
		"counters":            counters,
		"known_findings_hit":  knownSeen,
		"inconclusive":        inconclusive,
	}
	if len(samples) == 0 {
		cov["samples"] = []any{"(no sample recorded)"}
	}
	ev := Evidence{PropertyID: propID, Tier: tier, Seed: seed, Level: p.Level(), Coverage: cov,
		Assumptions: p.Assumptions(), WallS: time.Since(start).Seconds(), Violations: len(real)}
	if ev.Assumptions == nil {
		ev.Assumptions = []string{}
	}
	eb, _ := json.MarshalIndent(ev, "", " ")
	evPath := filepath.Join(root, "evidence", propID+".json")
	_ = os.WriteFile(evPath, append(eb, '\n'), 0o644)

	fmt.Printf("%s %s seed=%d: %d evaluations, %d distinct non-trivial, %d batches, %.1fs\n",
		propID, tier, seed, evals, distinct, nb, time.Since(start).Seconds())
	keys := make([]string, 0, len(counters))
	for k := range counters {
		keys = append(keys, k)
	}
	sort.Strings(keys)
	var sb strings.Builder
	for _, k := range keys {
		fmt.Fprintf(&sb, " %s=%d", k, counters[k])
	}
	if sb.Len() > 0 {
		fmt.Println("counters:" + sb.String())
	}
	for id, n := range knownSeen {
		fmt.Printf("note: %d violation(s) matched known finding %s\n", n, id)
	}
	{ // histogram of signatures of this run (debugging aid, not evidence)
		hist := map[string]int{}
		ex := map[string]string{}
		for _, v := range real {
			hist[v.Sig]++
			if _, ok := ex[v.Sig]; !ok {
				ex[v.Sig] = string(v.Input) + "  ## " + strings.ReplaceAll(tail(v.Detail, 300), "\n", " ")
			}
		}
		var sb2 strings.Builder
		sk := make([]string, 0, len(hist))
		for k := range hist {
			sk = append(sk, k)
		}
		sort.Strings(sk)
		for _, k := range sk {
			fmt.Fprintf(&sb2, "%6d %s\n        %s\n", hist[k], k, ex[k])
		}
		_ = os.WriteFile(filepath.Join(root, ".build", "last-"+propID+".sigs"), []byte(sb2.String()), 0o644)
	}
	if len(real) > 0 {
		printed := map[string]bool{}
		for i, v := range real {
			if printed[v.Sig] || len(printed) >= 25 {
				continue
			}
			printed[v.Sig] = true
			rp := filepath.Join(root, "replays", fmt.Sprintf("%s-%016x.json", propID, hashStr(v.Sig+string(v.Input))))
			rb, _ := json.MarshalIndent(map[string]any{"property": propID, "tier": tier, "seed": seed, "batch": v.Batch,
				"kind": v.Kind, "sig": v.Sig, "input": v.Input, "detail": v.Detail}, "", " ")
			_ = os.WriteFile(rp, append(rb, '\n'), 0o644)
			fmt.Printf("VIOLATION property=%s replay=%s\n", propID, rp)
			fmt.Printf("  kind=%s sig=%s\n  input=%s\n  detail=%s\n", v.Kind, v.Sig, tail(string(v.Input), 600), strings.ReplaceAll(tail(v.Detail, 800), "\n", "\n    "))
			_ = i
		}
		fmt.Printf("%d violation(s), %d distinct signature(s)\n", len(real), len(printed))
		return 1
	}
	if len(inconclusive) > 0 {
		for _, s := range inconclusive {
			fmt.Printf("INCONCLUSIVE property=%s %s\n", propID, s)
		}
		return 2
	}
	return 0
}

// ReplayMain re-executes a replay file (sub-command `replay <file>`).
func ReplayMain(path string) int {
	b, err := os.ReadFile(path)
	if err != nil {
		fmt.Println(err)
		return 3
	}
	var r struct {
		Property string          `json:"property"`
		Tier     string          `json:"tier"`
		Seed     int64           `json:"seed"`
		Input    json.RawMessage `json:"input"`
	}
	if err := json.Unmarshal(b, &r); err != nil {
		fmt.Println(err)
		return 3
	}
	p := Lookup(r.Property)
	if p == nil {
		fmt.Println("unknown property", r.Property)
		return 3
	}
	c := NewCtx(r.Property, r.Tier, r.Seed, -1, 0)
	c.Replay = true
	p.ReplayCase(c, r.Input)
	res := c.finish()
	if len(res.Violations) == 0 {
		fmt.Printf("replay of %s: the case no longer fails\n", path)
		return 0
	}
	for _, v := range res.Violations {
		fmt.Printf("VIOLATION property=%s replay=%s\n  kind=%s sig=%s\n  detail=%s\n", r.Property, path, v.Kind, v.Sig, v.Detail)
	}
	return 1
}
