// Package fw is the common machinery of the runtime monitors: batches run in worker child
// processes with a per-case journal, results are aggregated by the driver, violations are
// matched against the known-findings file, evidence is written per run.
package fw

import (
	"encoding/json"
	"fmt"
	"hash/fnv"
	"math/rand/v2"
	"os"
	"runtime"
	"sort"
	"strconv"
	"sync/atomic"
	"time"
)

// Violation is one refuting observation.
type Violation struct {
	Prop   string          `json:"property"`
	Kind   string          `json:"kind"`
	Sig    string          `json:"sig"`
	Input  json.RawMessage `json:"input"`
	Detail string          `json:"detail"`
	Batch  int             `json:"batch"`
}

// Result is what one batch reports.
type Result struct {
	Evaluations int64             `json:"evaluations"`
	Shapes      []uint64          `json:"shapes"`
	ShapesCut   bool              `json:"shapes_cut"`
	Violations  []Violation       `json:"violations"`
	Samples     []any             `json:"samples"`
	Counters    map[string]int64  `json:"counters"`
	Digests     map[string]string `json:"digests"`
	Done        bool              `json:"done"`
}

// Ctx is handed to a property's batch runner.
type Ctx struct {
	Prop     string
	Tier     string
	Seed     int64
	Batch    int
	NBatches int
	Rng      *rand.Rand
	Replay   bool // true when re-executing one recorded case

	res     Result
	shapes  map[uint64]struct{}
	journal *os.File
	maxViol int
}

const maxShapesPerBatch = 300000

func hashStr(s string) uint64 {
	h := fnv.New64a()
	_, _ = h.Write([]byte(s))
	return h.Sum64()
}

// NewCtx makes a context whose PRNG is a function of (seed, property, tier, batch) only.
func NewCtx(prop, tier string, seed int64, batch, nb int) *Ctx {
	s2 := hashStr(fmt.Sprintf("%s/%s/%d", prop, tier, batch))
	return &Ctx{
		Prop: prop, Tier: tier, Seed: seed, Batch: batch, NBatches: nb,
		Rng:     rand.New(rand.NewPCG(uint64(seed), s2)),
		shapes:  map[uint64]struct{}{},
		res:     Result{Counters: map[string]int64{}},
		maxViol: 200,
	}
}

// Quick reports whether this is the quick tier.
func (c *Ctx) Quick() bool { return c.Tier != "thorough" }

// Pick returns q in the quick tier and t in the thorough tier.
func (c *Ctx) Pick(q, t int) int {
	if c.Quick() {
		return q
	}
	return t
}

// Begin journals the case about to be executed (so the driver can name a killer input).
func (c *Ctx) Begin(input any) {
	if c.journal == nil {
		return
	}
	b, err := json.Marshal(input)
	if err != nil {
		b = []byte(fmt.Sprintf("%q", fmt.Sprint(input)))
	}
	_, _ = c.journal.WriteAt(append(b, '\n'), 0)
	_ = c.journal.Truncate(int64(len(b) + 1))
	atomic.StoreInt64(&lastBegin, time.Now().UnixNano())
}

var lastBegin int64

// StartCaseWatchdog makes the worker exit (status 98, goroutine dump on stderr) when one journaled case runs
// longer than the limit, so that a hanging case costs minutes, not the whole batch timeout. The driver then
// replays the journaled case alone: a reproducible hang is a violation, otherwise the run is inconclusive.
func StartCaseWatchdog(limit time.Duration) {
	atomic.StoreInt64(&lastBegin, time.Now().UnixNano())
	go func() {
		for {
			time.Sleep(2 * time.Second)
			if time.Since(time.Unix(0, atomic.LoadInt64(&lastBegin))) > limit {
				buf := make([]byte, 1<<20)
				n := runtime.Stack(buf, true)
				fmt.Fprintf(os.Stderr, "case watchdog: one case ran longer than %v\n%s\n", limit, buf[:n])
				os.Exit(98)
			}
		}
	}()
}

// Eval counts n executed cases.
func (c *Ctx) Eval(n int) { c.res.Evaluations += int64(n) }

// Shape records one distinct non-trivial case shape.
func (c *Ctx) Shape(s string) { c.ShapeH(hashStr(s)) }

// ShapeH records a pre-hashed shape.
func (c *Ctx) ShapeH(h uint64) {
	if len(c.shapes) >= maxShapesPerBatch {
		c.res.ShapesCut = true
		return
	}
	c.shapes[h] = struct{}{}
}

// Count adds to a named counter (evidence only).
func (c *Ctx) Count(name string, n int64) { c.res.Counters[name] += n }

// Digest records a value that every batch (process) must report identically (cross-process determinism).
func (c *Ctx) Digest(key, val string) {
	if c.res.Digests == nil {
		c.res.Digests = map[string]string{}
	}
	c.res.Digests[key] = val
}

// Sample keeps a few literal cases for the evidence file.
func (c *Ctx) Sample(v any) {
	if len(c.res.Samples) < 4 {
		c.res.Samples = append(c.res.Samples, v)
	}
}

// Violate records a refuting observation.
func (c *Ctx) Violate(kind, sig string, input any, detail string) {
	c.res.Counters["violations_raw"]++
	if len(c.res.Violations) >= c.maxViol {
		return
	}
	// keep at most 3 per signature per batch
	n := 0
	for _, v := range c.res.Violations {
		if v.Sig == sig {
			n++
		}
	}
	if n >= 3 {
		return
	}
	b, err := json.Marshal(input)
	if err != nil {
		b, _ = json.Marshal(fmt.Sprint(input))
	}
	if len(detail) > 1500 {
		detail = detail[:1500] + "…"
	}
	c.res.Violations = append(c.res.Violations, Violation{Prop: c.Prop, Kind: kind, Sig: sig, Input: b, Detail: detail, Batch: c.Batch})
}

// NumViolations is the number of violations recorded so far in this context.
func (c *Ctx) NumViolations() int { return len(c.res.Violations) }

// Violations returns what was recorded so far.
func (c *Ctx) Violations() []Violation { return c.res.Violations }

func (c *Ctx) finish() *Result {
	c.res.Shapes = make([]uint64, 0, len(c.shapes))
	for h := range c.shapes {
		c.res.Shapes = append(c.res.Shapes, h)
	}
	sort.Slice(c.res.Shapes, func(i, j int) bool { return c.res.Shapes[i] < c.res.Shapes[j] })
	c.res.Done = true
	return &c.res
}

// Property is one monitor.
type Property interface {
	ID() string
	// Level is the manifest level category ("exploration", "fault_enumeration").
	Level() string
	// Rule explains how cases are generated and what makes one distinct / non-trivial.
	Rule() string
	Assumptions() []string
	Exhaustive(tier string) bool
	NumBatches(tier string) int
	// MaxParallel bounds the number of concurrent workers (0 = default).
	MaxParallel() int
	RunBatch(c *Ctx)
	// ReplayCase re-executes one recorded case (the Input of a violation or a journal entry);
	// it records a violation on c if the case still fails.
	ReplayCase(c *Ctx, input json.RawMessage)
	// MinNontrivial is the number of distinct non-trivial cases below which a run is inconclusive.
	MinNontrivial(tier string) int
}

var registry = map[string]Property{}

// Register adds a property monitor.
func Register(p Property) { registry[p.ID()] = p }

// Lookup finds a monitor.
func Lookup(id string) Property { return registry[id] }

// Base gives defaults.
type Base struct{}

func (Base) Level() string            { return "exploration" }
func (Base) Assumptions() []string    { return nil }
func (Base) Exhaustive(string) bool   { return false }
func (Base) MaxParallel() int         { return 0 }
func (Base) MinNontrivial(string) int { return 2 }

// SubCommands lets properties register helper child-process entry points (C07, C09, C17, C18).
var SubCommands = map[string]func(args []string) int{}

// QuoteAll / UnquoteAll make byte strings survive JSON (invalid UTF-8, NUL): Go-quoted ASCII.
func QuoteAll(ws []string) []string {
	out := make([]string, len(ws))
	for i, w := range ws {
		out[i] = strconv.QuoteToASCII(w)
	}
	return out
}

// UnquoteAll reverses QuoteAll (strings that are not quoted are kept as they are).
func UnquoteAll(ws []string) []string {
	out := make([]string, len(ws))
	for i, w := range ws {
		if u, err := strconv.Unquote(w); err == nil {
			out[i] = u
		} else {
			out[i] = w
		}
	}
	return out
}

// Q quotes one byte string for JSON transport.
func Q(s string) string { return strconv.QuoteToASCII(s) }

// UQ reverses Q.
func UQ(s string) string {
	if u, err := strconv.Unquote(s); err == nil {
		return u
	}
	return s
}
