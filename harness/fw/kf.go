package fw

import (
	"bufio"
	"encoding/json"
	"os"
	"path/filepath"
	"strings"
)

// Finding is one line of known_findings.txt.
//
//	open:  property=C02 id=KF-3 sig=<glob> witness=<json> :: what fails
//	fixed: property=C07 <commit> witness=<json> :: what failed
//
// An open finding suppresses violations whose signature matches its glob (only `*` is special);
// its witness is re-executed on every run. A fixed finding suppresses nothing; its witness is
// re-executed as a regression case and must not fail.
type Finding struct {
	Open    bool
	Prop    string
	ID      string
	Sig     string
	Commit  string
	Witness json.RawMessage
	Text    string
}

// Root is /verif.
func Root() string {
	if r := os.Getenv("VERIF_ROOT"); r != "" {
		return r
	}
	return "/verif"
}

// LoadFindings parses the known-findings file (missing file = none).
func LoadFindings() ([]Finding, error) {
	if os.Getenv("VERIF_NO_KF") != "" { // debugging aid: show every violation
		return nil, nil
	}
	f, err := os.Open(filepath.Join(Root(), "known_findings.txt"))
	if err != nil {
		if os.IsNotExist(err) {
			return nil, nil
		}
		return nil, err
	}
	defer f.Close()
	var out []Finding
	sc := bufio.NewScanner(f)
	sc.Buffer(make([]byte, 1<<20), 1<<24)
	for sc.Scan() {
		line := strings.TrimSpace(sc.Text())
		if line == "" || strings.HasPrefix(line, "#") {
			continue
		}
		var fd Finding
		switch {
		case strings.HasPrefix(line, "open:"):
			fd.Open = true
			line = strings.TrimSpace(line[5:])
		case strings.HasPrefix(line, "fixed:"):
			line = strings.TrimSpace(line[6:])
		default:
			continue
		}
		if i := strings.Index(line, " :: "); i >= 0 {
			fd.Text = strings.TrimSpace(line[i+4:])
			line = line[:i]
		}
		if i := strings.Index(line, "witness="); i >= 0 {
			fd.Witness = json.RawMessage(strings.TrimSpace(line[i+8:]))
			line = line[:i]
		}
		for _, tok := range strings.Fields(line) {
			switch {
			case strings.HasPrefix(tok, "property="):
				fd.Prop = tok[9:]
			case strings.HasPrefix(tok, "id="):
				fd.ID = tok[3:]
			case strings.HasPrefix(tok, "sig="):
				fd.Sig = tok[4:]
			default:
				if !fd.Open && fd.Commit == "" {
					fd.Commit = tok
				}
			}
		}
		out = append(out, fd)
	}
	return out, sc.Err()
}

// Glob matches s against a pattern where `*` matches any run of characters.
func Glob(pat, s string) bool {
	parts := strings.Split(pat, "*")
	if len(parts) == 1 {
		return pat == s
	}
	if !strings.HasPrefix(s, parts[0]) {
		return false
	}
	s = s[len(parts[0]):]
	for i := 1; i < len(parts)-1; i++ {
		j := strings.Index(s, parts[i])
		if j < 0 {
			return false
		}
		s = s[j+len(parts[i]):]
	}
	return strings.HasSuffix(s, parts[len(parts)-1])
}
