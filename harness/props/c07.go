package props

import (
	"bytes"
	"context"
	"encoding/json"
	"fmt"
	"regexp"
	"sort"
	"strings"
	"time"

	"grol.io/grol/eval"
	"grol.io/grol/object"
	"grol.io/grol/repl"
	"verif/fw"
	"verif/gensyn"
	"verif/gt"
)

// C07: no program can crash the evaluator — panic monitor under hostile workloads.

type c07 struct{ fw.Base }

func init() { fw.Register(c07{}) }

func (c07) ID() string { return "C07" }
func (c07) Rule() string {
	return "programs are evaluated through repl.EvalOne (MaxDuration 300 ms, memory limit 1 GiB, restricted IO, fresh state each) and the panicked flag is classified: only the two documented guards ('max depth N reached', 'would exceed memory requesting ...') are allowed. " +
		"Enumerated completely: every infix operator x every ordered pair of 22 boundary values of every kind (0, -1, 1, 63, 64, min/max int64, 0.0, NaN, Inf, \"\", \"a\", [], 9-element array, {}, 5-pair map, nil, true, a function, an extension value, a quote), every prefix/postfix operator x kind, " +
		"indexing and slicing of every kind by every kind, assignment to every expression shape, every builtin and every extension found in object.ExtraFunctions() at run time applied to 0..2 arguments of every kind (3-4 arguments sampled). " +
		"Sampled: grammar-generated wild programs evaluated as they are, mutated corpus files that still parse, ill-typed typed-grammar programs, macro definitions with non-template bodies. non-trivial = program accepted by the parser; distinct = distinct program texts."
}
func (c07) Exhaustive(string) bool { return true }
func (c07) NumBatches(tier string) int {
	if tier == "thorough" {
		return 64
	}
	return 16
}
func (c07) CaseTimeout() time.Duration { return 60 * time.Second }
func (c07) Assumptions() []string {
	return []string{"a worker process that dies on a journaled program and dies again when that program is replayed alone counts as a violation (fatal Go errors cannot be recovered)",
		"read/exec/run are excluded by configuration (restricted IO, stdin closed); sleep is bounded by the deadline"}
}

type c07Case struct {
	Src string `json:"src"` // Go-quoted
}

var c07Values = []string{"0", "(-1)", "1", "63", "64", "9223372036854775807", "(-9223372036854775807 - 1)", "0.0", "NaN", "Inf", "1.5",
	`""`, `"a"`, "[]", "[1, 2, 3, 4, 5, 6, 7, 8, 9]", "{}", `{"a": 1, "b": 2, "c": 3, "d": 4, "e": 5}`, "nil", "true", "(x => x)", "max", "quote(1)"}

var digitsRe = regexp.MustCompile(`[0-9]+`)
var quotedRe = regexp.MustCompile(`"[^"]*"`)

func panicClass(msg string) string {
	m := quotedRe.ReplaceAllString(msg, "Q")
	m = digitsRe.ReplaceAllString(m, "N")
	if len(m) > 80 {
		m = m[:80]
	}
	return m
}

func (p c07) run(c *fw.Ctx, src string) {
	c.Begin(c07Case{Src: fw.Q(src)})
	c.Eval(1)
	s := eval.NewState()
	var out bytes.Buffer
	s.Out = &out
	s.LogOut = &out
	s.NoLog = true
	s.MaxDepth = 300
	opts := repl.Options{All: true, ShowEval: true, NoColor: true, MaxDuration: 300 * time.Millisecond}
	_, panicked, errs, _ := repl.EvalOne(context.Background(), s, src, &out, opts)
	if len(errs) == 0 || !strings.HasPrefix(errs[0], "1: ") {
		c.ShapeH(fnv64(src))
	}
	if !panicked {
		return
	}
	msg := ""
	if len(errs) > 0 {
		msg = strings.TrimPrefix(errs[len(errs)-1], "panic: ")
	}
	if guardPanic(msg) {
		c.Count("guard_panics", 1)
		return
	}
	c.Violate("panic", "panic:"+panicClass(msg), c07Case{Src: fw.Q(src)}, "evaluating "+clip(src)+" panicked: "+msg)
}

func (p c07) RunBatch(c *fw.Ctx) {
	InitGrol(nil)
	registerHarnessExtensions()
	V := c07Values
	var table []string
	for _, op := range gensyn.InfixOps {
		for _, a := range V {
			for _, b := range V {
				table = append(table, a+" "+op+" "+b)
			}
		}
	}
	for _, op := range gensyn.PrefixOps {
		for _, a := range V {
			table = append(table, op+a, "x = "+a+"; "+op+"x", "x = "+a+"; x++; x--; x")
		}
	}
	for _, a := range V {
		for _, b := range V {
			table = append(table, "x = "+a+"; x["+b+"]", "x = "+a+"; x["+b+"] = 1; x", "x = "+a+"; x."+strings.Trim(b, "()\"")+"", "x = "+a+"; del(x["+b+"])",
				"for v = "+a+" {if v == "+b+" {break}}", "x = "+a+"; for i = x:"+b+" {}", "m = {"+a+": "+b+"}; m["+a+"]", "["+a+", "+b+"][1]", "if "+a+" {"+b+"} else {0}",
				"f = (p, q) => [p, q]; f("+a+", "+b+")", "f = (p, ..) => ..; f("+a+", "+b+")", "("+a+")("+b+")", "catch("+a+" + "+b+")", "error("+a+", "+b+")", "print("+a+", "+b+")")
			for _, k := range []string{"0", "(-1)", "9223372036854775807", "(-9223372036854775807 - 1)", "nil", "1.5", `"a"`} {
				table = append(table, "x = "+a+"; x["+b+":"+k+"]", "x = "+a+"; x["+k+":"+b+"]", "x = "+a+"; x["+k+":]")
			}
		}
	}
	for _, lhs := range []string{"1", `"s"`, "[1]", "{}", "f()", "a.b.c", "a[1][2]", "(a)", "-a", "a + b", "nil", "true", "x => x", "len(a)", "a++", "if a {b}", "..", "self", "info", "PI", "max", "[a, b]", "quote(a)", "macro(x) {x}", "for 1 {}"} {
		table = append(table, lhs+" = 1", lhs+" := 1", "a = [1, 2]; b = 1; "+lhs+" = 2", "del("+lhs+")", "for "+lhs+" = 3 {}", lhs+"++", "++"+lhs)
	}
	for _, b := range []string{"len", "first", "rest", "print", "println", "log", "error", "catch", "quote", "unquote", "del"} {
		table = append(table, b+"()")
		for _, a := range V {
			table = append(table, b+"("+a+")")
			for _, a2 := range V {
				table = append(table, b+"("+a+", "+a2+")")
			}
		}
	}
	// every extension registered in this process
	exts := object.ExtraFunctions()
	names := make([]string, 0, len(exts))
	for name := range exts {
		if name == "read" || name == "exec" || name == "run" || name == "verif_panic" || name == "verif_rtpanic" {
			continue
		}
		names = append(names, name)
	}
	sort.Strings(names)
	c.Count("extensions_enumerated", int64(len(names)))
	for _, name := range names {
		table = append(table, name+"()", name)
		for _, a := range V {
			table = append(table, name+"("+a+")")
			for _, b := range V {
				table = append(table, name+"("+a+", "+b+")")
			}
		}
	}
	// an entry deleted from a small map must leave nothing behind that later hashing or comparing trips on
	for _, a := range V {
		for _, use := range []string{"(x => len(x))(m)", "[m] == [m]", "{m: 1}", "m == {1: 1}", "f = x => x; f(m); f(m)", "m < m", "println(m)"} {
			table = append(table, "m = {1: 1, 2: "+a+"}; del(m[2]); "+use, "m = {"+a+": 1, 1: 2}; del(m["+a+"]); "+use)
		}
	}
	// every kind of value as map KEY of an argument (hashing of call arguments), and deletes from maps of every size 0..6
	for _, a := range V {
		table = append(table, "(x => 1)({"+a+": 1})", "f = x => x; f({"+a+": 1}); f([{"+a+": 1}]); f({1: {"+a+": 2}})", "f = (x, y) => 1; f(1, {"+a+": "+a+"})")
	}
	for n := 0; n <= 6; n++ {
		lit := "{"
		for i := 1; i <= n; i++ {
			if i > 1 {
				lit += ", "
			}
			lit += fmt.Sprintf("%d: %d", i, i)
		}
		lit += "}"
		for k := 0; k <= n+1; k++ {
			table = append(table, fmt.Sprintf("m = %s; del(m[%d]); m", lit, k), fmt.Sprintf("m = %s; func fd(mm) {del(mm[%d]); mm}; fd(m)", lit, k), fmt.Sprintf("m = %s; m.k%d = 1; del(m.k%d); del(m[%d]); m", lit, k, k, k))
		}
	}
	// a variable deleted by another call frame while this one holds a reference to it
	for _, a := range V {
		for _, use := range []string{"x", "x + 1", "x = 2", "x++", "println(x)", "x[0]", "x[1] = 3", "len(x)", "for v = x {}", "[x]", "{1: x}", "x == x", "del(x)", "x.k", "-x", "f2 = () => x; f2()"} {
			table = append(table, "x = "+a+"; func g() {del(x)}; func f() {x; g(); "+use+"}; f()")
		}
	}
	// images of every pair of sizes handed to the two-image and drawing functions, at and beyond their bounds
	sizes := [][2]int{{0, 0}, {1, 1}, {4, 2}, {2, 4}, {4, 4}, {7, 3}}
	for _, s1 := range sizes {
		for _, s2 := range sizes {
			mk := fmt.Sprintf("image.new(\"ia\", %d, %d); image.new(\"ib\", %d, %d); ", s1[0], s1[1], s2[0], s2[1])
			table = append(table, mk+"image.add(\"ia\", \"ib\")", mk+"image.add(\"ib\", \"ia\"); image.add(\"ia\", \"ia\")",
				mk+fmt.Sprintf("image.set(\"ia\", %d, %d, [1, 2, 3]); image.set(\"ib\", %d, %d, [1, 2, 3, 4]); image.set(\"ia\", -1, 0, [1, 2, 3])", s2[0], s2[1], s1[0]-1, s1[1]-1),
				mk+"image.move_to(\"ia\", 0, 0); image.line_to(\"ia\", 100, 100); image.close_path(\"ia\"); image.draw(\"ia\", [255, 0, 0]); image.add(\"ia\", \"ib\"); len(image.png(\"ia\"))",
				mk+"image.set_hsl(\"ib\", 0, 0, [0.5, 0.5, 0.5]); image.set_ycbcr(\"ib\", 0, 0, [1, 2, 3]); image.draw_hsl(\"ib\", [0.1, 0.2, 0.3]); image.quad_to(\"ib\", 1, 1, 2, 2); image.cube_to(\"ib\", 1, 1, 2, 2, 3, 3)")
		}
	}
	// every extension applied, inside a function, to a variable of the enclosing scope (it receives a reference)
	for _, name := range names {
		for _, a := range V {
			table = append(table, "x = "+a+"; func f() {"+name+"(x)}; f()", "x = "+a+"; y = 1; func f() {"+name+"(y, x)}; f()")
		}
	}
	// info read at every kind of call depth: called from another function, from a closure made two calls deep and called from
	// the top level, from recursion, from loops (its stack has one entry per lexical level, whoever the caller is)
	for _, use := range []string{"info", "info.stack", "info.globals", "len(info.stack)", "println(info.stack)", "info.stack[0]", "[info, info]", "x = info; x.stack"} {
		for _, shape := range []string{"func f() {%s}; func g() {f()}; g()", "func a() {func b() {() => %s}; b()}; a()()", "func f() {%s}; (() => f())()", "func r(n) {if n == 0 {return %s}; r(n - 1)}; r(3)",
			"f = () => %s; func g() {func h() {f()}; h()}; g()", "for i = 2 {func lf() {%s}; lf()}", "func mk() {v = 1; () => {w = 2; () => %s}}; mk()()()", "func g(cb) {cb()}; func f() {q = 1; g(() => %s)}; f()",
			"func d3() {%s}; func d2() {z = 1; d3()}; func d1() {y = 1; d2()}; d1()"} {
			table = append(table, fmt.Sprintf(shape, use))
		}
	}
	// every extension handed containers whose map KEYS are of every kind (native conversion of keys: json, sprintf, keys, ...)
	for _, name := range names {
		for _, a := range V {
			table = append(table, name+"({"+a+": 1})", name+"(\"%v\", {"+a+": 1, 2: 3})", name+"(\"<%v>\", [{1: {"+a+": \"v\"}}])", name+"({"+a+": "+a+"}, {"+a+": 1})")
		}
	}
	for i, src := range table {
		if i%c.NBatches == c.Batch {
			p.run(c, src)
			c.Count("table_cases", 1)
		}
	}
	c.Sample(map[string]any{"table_size": len(table), "example": `x = "a"; x[(-9223372036854775807 - 1):nil]`})
	// 3-4 argument samples for extensions
	for k := 0; k < c.Pick(1500, 40000); k++ {
		name := names[c.Rng.IntN(len(names))]
		n := 3 + c.Rng.IntN(2)
		args := make([]string, n)
		for i := range args {
			args[i] = V[c.Rng.IntN(len(V))]
		}
		p.run(c, name+"("+strings.Join(args, ", ")+")")
	}
	// wild grammar programs evaluated as they are
	for k := 0; k < c.Pick(2500, 80000); k++ {
		g := gensyn.New(c.Rng)
		g.Program(1+c.Rng.IntN(4), 1+c.Rng.IntN(4))
		src, _ := gensyn.Render(g.Toks, c.Rng)
		p.run(c, src)
		c.Count("wild_programs", 1)
	}
	// ill-typed typed-grammar programs
	for k := 0; k < c.Pick(1000, 30000); k++ {
		g := gt.NewGen(c.Rng)
		g.IllTyped = 40
		stmts := g.Program(2+c.Rng.IntN(6), 1+c.Rng.IntN(3))
		ref := gt.NewRef()
		ref.Run(stmts)
		if ref.Exhausted {
			continue
		}
		if ref.BigInPlace {
			// programs that update a big array/map in place (where a[i] = a once built a container holding itself)
			c.Count("ill_typed_inplace_programs", 1)
		}
		p.run(c, gt.Render(stmts))
		c.Count("ill_typed_programs", 1)
	}
	// corpus mutations that still parse
	corpus := Corpus()
	for fi, b := range corpus {
		if fi%c.NBatches != c.Batch {
			continue
		}
		for m := 0; m < c.Pick(25, 600); m++ {
			src := gensyn.MutateBytes(c.Rng, string(b))
			if strings.Contains(src, "sleep") || strings.Contains(src, "read(") {
				continue
			}
			if r := parseSrc(src, false); r.accepted() {
				p.run(c, src)
				c.Count("corpus_mutations", 1)
			}
		}
	}
	// macros with non-template bodies
	for _, src := range []string{"m = macro(x) {x}; m(1)", "m = macro(x) {1}; m(2)", "m = macro() {}; m()", "m = macro(x) {quote(unquote(y))}; m(1)", "m = macro(x) {unquote(x)}; m(1)",
		"m = macro(x) {quote(unquote(x)(unquote(x)))}; m(m)", "m = macro(x, y) {quote(unquote(x))}; m(1)", "m = macro(x) {quote(m(unquote(x)))}; m(1)", "quote()", "unquote(1)", "quote(unquote())",
		"m = macro(x) {error(\"e\")}; m(1)", "m = macro(x) {quote(unquote(1/0))}; m(1)", "m = macro(x) {for true {}}; m(1)",
		"M = macro(x) {quote(unquote(x) + 1)}; M = macro(x) {quote(unquote(x) + 2)}; M(1)", "M = macro(x) {quote(unquote(x))}; M = macro(x) {quote(unquote(x))}", "M = macro() {quote(1)}; M == M; {M: 1}; M < M",
		"mm = macro(x) {f = func(a) {a}; f(1); quote(unquote(x))}; mm(3)", "mq = macro(x) {quote(unquote(3) + unquote(x))}; mq(4)", "mb = macro(x) {quote(if unquote(true) {unquote(x)} else {unquote(nil)})}; mb(1)",
		"mf = macro(x) {quote(unquote(2.5) * unquote(\"s\") + unquote([1]) + unquote({1: 2}))}; mf(1)"} {
		if c.Batch == 0 {
			p.run(c, src)
		}
	}
}

func (p c07) ReplayCase(c *fw.Ctx, input json.RawMessage) {
	InitGrol(nil)
	registerHarnessExtensions()
	var cs c07Case
	if err := json.Unmarshal(input, &cs); err != nil {
		return
	}
	p.run(c, fw.UQ(cs.Src))
}
