package props

import (
	"fmt"
	"strings"

	"grol.io/grol/ast"
	"grol.io/grol/lexer"
	"grol.io/grol/parser"
)

// parsed is the outcome of one lexer+parser run.
type parsed struct {
	prog  *ast.Statements
	errs  []string
	cont  bool
	panic string
}

func (p parsed) accepted() bool { return p.panic == "" && len(p.errs) == 0 && !p.cont && p.prog != nil }

func parseSrc(src string, lineMode bool) (res parsed) {
	defer func() {
		if r := recover(); r != nil {
			res.panic = fmt.Sprint(r)
		}
	}()
	var l *lexer.Lexer
	if lineMode {
		l = lexer.NewLineMode(src)
	} else {
		l = lexer.New(src)
	}
	p := parser.New(l)
	res.prog = p.ParseProgram()
	res.errs = p.Errors()
	res.cont = p.ContinuationNeeded()
	return res
}

// printNode prints with the formatter under test.
func printNode(n ast.Node, compact, allParens bool) (out string, panicMsg string) {
	defer func() {
		if r := recover(); r != nil {
			panicMsg = fmt.Sprint(r)
		}
	}()
	ps := ast.NewPrintState()
	ps.Compact = compact
	ps.AllParens = allParens
	n.PrettyPrint(ps)
	return ps.String(), ""
}

// describe gives the kind+operator of a node for signatures.
func describe(n ast.Node) string { //nolint:gocyclo // type switch
	switch v := n.(type) {
	case nil:
		return "nil"
	case *ast.Statements:
		if v == nil {
			return "nil"
		}
		return fmt.Sprintf("stmts%d", min(len(v.Statements), 3))
	case *ast.Identifier:
		return "ident"
	case *ast.IntegerLiteral:
		return "int"
	case *ast.FloatLiteral:
		return "float"
	case *ast.StringLiteral:
		return "str"
	case *ast.Boolean:
		return "bool"
	case *ast.Comment:
		if strings.HasPrefix(v.Literal(), "//") {
			return "linecomment"
		}
		return "blockcomment"
	case *ast.PrefixExpression:
		return "pre:" + v.Literal()
	case *ast.PostfixExpression:
		return "post:" + v.Literal()
	case *ast.InfixExpression:
		return "in:" + v.Literal()
	case *ast.IfExpression:
		return "if"
	case *ast.ForExpression:
		return "for"
	case *ast.ReturnStatement:
		if v.ReturnValue == nil {
			return "return0"
		}
		return "return"
	case *ast.ControlExpression:
		return "ctl"
	case *ast.Builtin:
		return "builtin"
	case *ast.FunctionLiteral:
		if v.IsLambda {
			return "lambda"
		}
		return "func"
	case *ast.CallExpression:
		return "call"
	case *ast.ArrayLiteral:
		return "array"
	case *ast.IndexExpression:
		return "idx:" + v.Literal()
	case *ast.MapLiteral:
		return "map"
	case *ast.MacroLiteral:
		return "macro"
	}
	return fmt.Sprintf("%T", n)
}

// children lists the direct child nodes (in source order).
func children(n ast.Node) []ast.Node { //nolint:gocyclo // type switch
	switch v := n.(type) {
	case *ast.Statements:
		if v == nil {
			return nil
		}
		return v.Statements
	case *ast.PrefixExpression:
		return []ast.Node{v.Right}
	case *ast.InfixExpression:
		if v.Right == nil {
			return []ast.Node{v.Left}
		}
		return []ast.Node{v.Left, v.Right}
	case *ast.IfExpression:
		r := []ast.Node{v.Condition, v.Consequence}
		if v.Alternative != nil {
			r = append(r, v.Alternative)
		}
		return r
	case *ast.ForExpression:
		return []ast.Node{v.Condition, v.Body}
	case *ast.ReturnStatement:
		if v.ReturnValue == nil {
			return nil
		}
		return []ast.Node{v.ReturnValue}
	case *ast.Builtin:
		return v.Parameters
	case *ast.FunctionLiteral:
		return []ast.Node{v.Body}
	case *ast.CallExpression:
		return append([]ast.Node{v.Function}, v.Arguments...)
	case *ast.ArrayLiteral:
		return v.Elements
	case *ast.IndexExpression:
		return []ast.Node{v.Left, v.Index}
	case *ast.MapLiteral:
		var r []ast.Node
		for _, k := range v.Order {
			r = append(r, k, v.Pairs[k])
		}
		return r
	case *ast.MacroLiteral:
		return []ast.Node{v.Body}
	}
	return nil
}

// My frozen copy of the documented precedence table (ast.go's Priority constants), used only to
// compute relational signature tags — never read from grol at run time.
var myPrec = map[string]int{
	"=": 2, ":=": 2, "||": 3, "&&": 4, ":": 4, "=>": 5, "==": 6, "!=": 6, "<": 7, ">": 7, "<=": 7, ">=": 7,
	"+": 8, "-": 8, "|": 8, "^": 8, "*": 9, "%": 9, "&": 9, "<<": 9, ">>": 9, "/": 10,
}

func precRel(parent, child ast.Node) string {
	pi, ok1 := parent.(*ast.InfixExpression)
	ci, ok2 := child.(*ast.InfixExpression)
	if !ok1 || !ok2 {
		return "na"
	}
	pp, cp := myPrec[pi.Literal()], myPrec[ci.Literal()]
	switch {
	case cp == pp:
		return "eq"
	case cp < pp:
		return "lt"
	}
	return "gt"
}
