package props

import (
	"context"
	"encoding/json"
	"fmt"
	"grol.io/grol/repl"
	"strings"
	"time"

	"verif/fw"
	"verif/gt"
)

// C10: a failed input leaves no trace in the session — history-differential monitor.

type c10 struct{ fw.Base }

func init() { fw.Register(c10{}) }

func (c10) ID() string { return "C10" }
func (c10) Rule() string {
	return "a session H of 5..30 succeeding inputs (typed-grammar statements: globals, functions, closures, loops, prints) is run on one persistent state, and H+ = H with side-effect-free failing inputs inserted at random positions with multiplicity 1..12 " +
		"is run on another; every succeeding input must produce the same printed text, value and error status in both. Failing inputs are immediately-invoked lambdas that bind and print nothing: language errors inside nested calls and at every loop nesting/exit position, " +
		"a Go panic raised by a harness extension inside a function / loop / argument list, the memory guard, the depth guard (MaxDepth 200), and a deadline (for true {} under 5 ms). " +
		"non-trivial = H+ contains >=1 failing input that really failed; distinct = distinct H+ texts. The histogram of failure kinds observed is in the counters."
}
func (c10) NumBatches(tier string) int {
	if tier == "thorough" {
		return 64
	}
	return 16
}
func (c10) Assumptions() []string {
	return []string{"the deadline failure kind uses a real 5 ms timer, but the verdict does not depend on timing: any finite deadline ends the input",
		"failing inputs are constructed so that they complete no side effect before failing (nothing printed, no global bound)"}
}

type c10Case struct {
	Inputs  []string `json:"inputs"` // H+
	Failing []bool   `json:"is_failing"`
	Depth   int      `json:"max_depth,omitempty"` // 0: the 200 used by the random sessions; -1: grol's default limit
}

// c10Deep are failing inputs that fail far down the stack or after a long time, for sessions run under the default
// depth limit; the inputs after them probe capacities a leftover would reduce (depth, nesting, registers, memory,
// memoized results).
var c10Deep = []string{
	`for zi = 2 {zz_boom(zi)}`,
	`for zi = 2 { (func(n) {self(n + 1)})(0) }`,
	`(func(n) {1 + self(n + 1)})(0)`,
	`(() => { func zz_rec(n) {zz_rec(n + 1)}; zz_rec(0) })()`,
	`(() => { func zz_rec3(n) {[zz_rec3(n + 1)]}; zz_rec3(0) })()`,
	`(n => { if n > 0 { 1 + self(n - 1) } else { verif_panic() } })(20000)`,
	`(n => { if n > 0 { 1 + self(n - 1) } else { 1 / 0 } })(20000)`,
	`(n => { if n > 0 { [self(n - 1)] } else { for true {} } })(20000)`,
	`zz_outer(3000000)`, // deadline inside a memoizable function
	`zz_safe(3000000)`,  // ... whose error a catch() around the slow call turns into a value
	`(() => { for za = 2 { for zb = 2 { for zc = 2 { for zd = 2 { for ze = 2 { for zf = 2 { for zg = 2 { [1] * 1152921504606846976 } } } } } } } })()`,
}

var c10DeepSetup = []string{
	`func zz_boom(n) {zz_boom(n + 1)}`,
	`func zz_down(n) {if n <= 0 {return 0}; 1 + zz_down(n - 1)}`,
	`func zz_burn(n) {t = 0; for i = n {t = t + i}; t}`,
	`func zz_outer(n) {zz_burn(n) + 1}`,
	`func zz_safe(n) {catch(zz_burn(n))}`,
	`zz_down(100)`,
}

var c10DeepProbes = []string{
	`zz_down(30000)`,
	`zz_outer(3000000)`,
	`zz_safe(3000000)`,
	`zz_burn(3000000)`,
	`for p1 = 2 { for p2 = 2 { for p3 = 2 { for p4 = 2 { for p5 = 2 { for p6 = 2 { for p7 = 2 { for p8 = 2 { if p1 + p2 + p3 + p4 + p5 + p6 + p7 + p8 == 8 { println("all") } } } } } } } } }`,
	`[catch(p1).err, catch(p5).err, catch(p8).err]`,
	`len([0] * 4000000)`,
	`println("still", "here")`,
}

var c10Failing = []string{
	`(() => { (() => { 1 + "a" })() })()`,
	`(() => { func zz_in(n) {if n <= 0 {return undefined_name_zz}; zz_in(n - 1)}; zz_in(5) })()`,
	`(() => { for zi = 3 { for zj = 2 { if zj == 1 { error("x") } } } })()`,
	`(() => { for zi = 3 { if zi == 2 { [1, 2][0:1][5:1] } } })()`,
	`(() => { for zk = [1, 2, 3] { for 2 { if zk == 2 { 1 / 0 } } } })()`,
	`(() => { zc = 0; for zc < 5 { zc = zc + 1; if zc == 3 { nil + 1 } } })()`,
	`(() => verif_panic())()`,
	`(() => { for zi = 2 { verif_panic() } })()`,
	`(() => { for zi = 3 { for zj = 3 { if zi + zj == 3 { verif_panic() } } } })()`,
	`((a, b) => a + b)(1, verif_panic())`,
	`(() => { (() => { (() => verif_panic())() })() })()`,
	`(() => [1] * 1152921504606846976)()`,
	`(() => { func zz_rec(n) {zz_rec(n + 1)}; zz_rec(0) })()`,
	`(() => { for zi = 2 { func zz_rec2(n) {[zz_rec2(n + 1)]}; zz_rec2(0) } })()`,
	`(() => { for true {} })()`,
	`(() => { for zi = 1000000000 { for true {} } })()`,
	`(n => { if n > 0 { self(n - 1) } else { "s"[0][0] } })(4)`,
	`1 +`,
	`)`,
	// break / continue that escape a function body or reach the top level
	`(() => { break })()`,
	`(() => { for zi = 2 { (() => { continue })() } })()`,
	`for zi = 3 { for zj = 2 { (() => { if zj == 1 { break } })() } }`,
	`break`,
	`if true { continue }`,
	// a panic that unwinds through a function called from a top level counted loop (the loop's register is released
	// while another environment is current)
	`for zi = 2 { (func(n) {self(n + 1)})(0) }`,
	`for zi = 2 { for zj = 1:3 { (() => verif_panic())() } }`,
	// (zz_boom and zz_boom2 are defined by the first inputs of every session)
	`for zi = 2 {zz_boom(zi)}`,
	`for zi = 2 {for zj = 1:3 {zz_boom2(zi, zj)}}`,
	`zz_boom2(1, 2)`,
	// panics raised inside text handed to eval() / unjson() (the evaluator is re-entered through an extension)
	`eval("zz_boom(1)")`, `eval("(func(n) {self(n + 1)})(0)")`, `(() => eval("verif_panic()"))()`, `for zi = 2 {eval("zz_boom2(1, 2)")}`, `eval("verif_rtpanic()")`,
	`unjson("(func(n) {self(n + 1)})(0)")`, `catch(eval("zz_boom(1)"))`, `(zsecret => eval("zz_boom(zsecret)"))(3)`, `eval("for zi = 3 {for zj = 2 {zz_boom(zi)}}")`, `eval("eval(\"zz_boom(1)\")")`,
	// calls refused by an extension for one of their arguments
	`image.draw("zimg", [1, 2])`, `image.draw("zimg", [300, 0, 0])`, `image.draw_hsl("zimg", [1])`, `image.draw_ycbcr("zimg", [1, 2, 3, 4, 5])`, `(() => image.draw("zimg", "red"))()`,
	`image.line_to("zimg", "x", 1)`, `image.move_to("zimg_none", 1, 1)`, `image.add("zimg", "zimg_none")`, `image.set("zimg", 1, 1, [1])`, `image.quad_to("zimg", 1, 1, 2)`, `image.draw("zimg", [1, 2, verif_panic()])`,
	// a Go runtime error (not a string panic) raised inside a call whose parameters must not stay visible afterwards
	`((zsecret, zn) => verif_rtpanic())("s3", 1)`,
	`(zsecret => { for zi = 2 { (zs2 => verif_rtpanic())(zi) } })("s4")`,
}

// c10Setup are succeeding inputs every random session starts with.
var c10Setup = []string{`func zz_boom(n) {zz_boom(n + 1)}`, `func zz_boom2(a, b) {zz_boom2(a + 1, b)}`,
	// an image with an unfinished path: state held by an extension, which a refused call must leave alone too
	`image.new("zimg", 8, 8); image.move_to("zimg", 1, 1); image.line_to("zimg", 6, 1); image.line_to("zimg", 6, 6); 0`}

// c10ImageProbe finishes the path, draws it and reads the picture back.
const c10ImageProbe = `image.line_to("zimg", 1, 6); image.close_path("zimg"); image.draw("zimg", [255, 0, 0]); image.png("zimg")`

func c10IsDeadline(s string) bool {
	return strings.Contains(s, "for true {}") || s == "zz_outer(3000000)" || s == "zz_safe(3000000)"
}

func (p c10) run(inputs []string, failing []bool, depth int) []runOut {
	ss := newSession(false)
	switch depth {
	case 0:
		ss.s.MaxDepth = 200
	case -1: // keep the default
	default:
		ss.s.MaxDepth = depth
	}
	// every input goes through the REPL's own entry point (repl.EvalOne: parse, macros, evaluation, panic recovery),
	// so that what it does after a failure is part of what is observed
	opts := repl.EvalStringOptions()
	opts.MaxDepth = ss.s.MaxDepth
	outs := make([]runOut, len(inputs))
	for i, in := range inputs {
		d := 5 * time.Second
		if failing != nil && failing[i] && c10IsDeadline(in) {
			d = 5 * time.Millisecond
		}
		opts.MaxDuration = d
		ss.out.Reset()
		started := time.Now()
		_, panicked, errs, _ := repl.EvalOne(context.Background(), ss.s, in, ss.out, opts)
		o := runOut{printed: ss.out.String(), elapsed: time.Since(started)}
		all := strings.Join(errs, " | ")
		switch {
		case panicked:
			o.isErr, o.panicked = true, all
		case len(errs) > 0:
			o.isErr, o.errMsg = true, all
			if strings.Contains(all, "context deadline exceeded") {
				o.timedOut = true
			}
			if strings.Contains(all, "parser error") || strings.Contains(all, "parse error") {
				o.parseErr = all
			}
		}
		outs[i] = o
	}
	return outs
}

func (p c10) compare(c *fw.Ctx, plus []string, failing []bool, depth int) {
	c.Eval(1)
	var base []string
	for i, in := range plus {
		if !failing[i] {
			base = append(base, in)
		}
	}
	a := p.run(base, nil, depth)
	b := p.run(plus, failing, depth)
	if anyTimeout(a) {
		c.Count("timeouts_skipped", 1)
		return
	}
	// a succeeding input that really used up the harness's own generous budget (loaded machine) decides nothing; a
	// deadline error that comes back at once is a leftover and is judged below
	for i := range plus {
		if !failing[i] && b[i].timedOut && b[i].elapsed > 4*time.Second {
			c.Count("timeouts_skipped", 1)
			return
		}
	}
	really := 0
	j := 0
	for i := range plus {
		if failing[i] {
			switch {
			case b[i].panicked != "":
				c.Count("failing_kind_panic", 1)
				really++
			case b[i].timedOut:
				c.Count("failing_kind_deadline", 1)
				really++
			case b[i].parseErr != "":
				c.Count("failing_kind_parse_error", 1)
				really++
			case b[i].isErr:
				c.Count("failing_kind_error", 1)
				really++
			default:
				c.Count("failing_input_did_not_fail", 1)
			}
			continue
		}
		if !sameOutcome(a[j], b[i]) {
			// which failing inputs precede it
			var kinds []string
			seen := map[string]bool{}
			for k := 0; k < i; k++ {
				if failing[k] {
					kd := "error"
					switch {
					case b[k].panicked != "":
						kd = "panic"
					case b[k].timedOut:
						kd = "deadline"
					case b[k].parseErr != "":
						kd = "parse"
					}
					if !seen[kd] {
						seen[kd] = true
						kinds = append(kinds, kd)
					}
				}
			}
			c.Violate("trace-left", "trace|after:"+strings.Join(kinds, "+"), c10Case{Inputs: plus, Failing: failing, Depth: depth},
				fmt.Sprintf("input %q: without the failing inputs %s; with them %s", clip(plus[i]), outStr(a[j]), outStr(b[i])))
			return
		}
		j++
	}
	if really > 0 {
		c.ShapeH(fnv64(strings.Join(plus, "\x01")))
	}
}

func (p c10) RunBatch(c *fw.Ctx) {
	InitGrol(nil)
	registerHarnessExtensions()
	p.deepFamily(c)
	// the deepest recursion a fresh state allows under the depth limit of the random sessions: used as the last input
	// of every session, so that a single unit of depth leaked by a failing input shows
	maxRec := 1
	for k := 1; k <= 200; k++ {
		o := p.run([]string{fmt.Sprintf(`func zz_d(n) {if n <= 0 {return 0}; 1 + zz_d(n - 1)}; zz_d(%d)`, k)}, nil, 0)
		if o[0].isErr || o[0].panicked != "" {
			break
		}
		maxRec = k
	}
	c.Count("deepest_recursion_probe", int64(maxRec))
	n := c.Pick(500, 15000)
	for i := 0; i < n; i++ {
		g := gt.NewGen(c.Rng)
		stmts := g.Program(5+c.Rng.IntN(26), 1+c.Rng.IntN(2))
		if !refSessionUsable(stmts) {
			continue // non-terminating, or in the region of the aliasing finding (C06) where values may even become cyclic
		}
		rr := &gt.Renderer{}
		var plus []string
		var failing []bool
		for _, in := range c10Setup {
			plus = append(plus, in)
			failing = append(failing, false)
		}
		for _, s := range stmts {
			if c.Rng.IntN(4) == 0 {
				f := c10Failing[c.Rng.IntN(len(c10Failing))]
				for k := 1 + c.Rng.IntN(12); k > 0; k-- {
					if c.Rng.IntN(3) == 0 {
						f = c10Failing[c.Rng.IntN(len(c10Failing))]
					}
					plus = append(plus, f)
					failing = append(failing, true)
				}
			}
			plus = append(plus, rr.Stmt(s, ""))
			failing = append(failing, false)
		}
		// always end with observations that exercise output, loops, calls and depth
		for _, obs := range []string{`println("still", "here")`, `for zq = 3 {print(zq)}`, `for q1 = 1 {for q2 = 1 {for q3 = 1 {for q4 = 1 {for q5 = 1 {for q6 = 1 {for q7 = 1 {for q8 = 1 {print(q8)}}}}}}}}`, `[catch(q1).err, catch(q4).err, catch(q8).err]`, `[catch(zsecret).err, catch(zn).err, catch(zs2).err]`, c10ImageProbe, fmt.Sprintf(`func zz_d(n) {if n <= 0 {return 0}; 1 + zz_d(n - 1)}; zz_d(%d)`, maxRec)} {
			plus = append(plus, obs)
			failing = append(failing, false)
		}
		c.Begin(c10Case{Inputs: plus, Failing: failing})
		p.compare(c, plus, failing, 0)
		if i == 0 {
			c.Sample(map[string]any{"history_with_failing_inputs": plus[:min(len(plus), 20)]})
		}
	}
}

// deepFamily: sessions under the default depth limit whose failing inputs fail deep in the stack.
func (p c10) deepFamily(c *fw.Ctx) {
	idx := 0
	mults := []int{1, 2}
	if c.Tier == "thorough" {
		mults = []int{1, 2, 3, 5}
	}
	for _, f := range c10Deep {
		for _, m := range mults {
			idx++
			if idx%c.NBatches != c.Batch {
				continue
			}
			var plus []string
			var failing []bool
			for _, in := range c10DeepSetup {
				plus = append(plus, in)
				failing = append(failing, false)
			}
			for k := 0; k < m; k++ {
				plus = append(plus, f)
				failing = append(failing, true)
			}
			for _, in := range c10DeepProbes {
				plus = append(plus, in)
				failing = append(failing, false)
			}
			c.Begin(c10Case{Inputs: plus, Failing: failing, Depth: -1})
			p.compare(c, plus, failing, -1)
			c.Count("deep_family_sessions", 1)
		}
	}
}

func (p c10) ReplayCase(c *fw.Ctx, input json.RawMessage) {
	InitGrol(nil)
	registerHarnessExtensions()
	var cs c10Case
	if err := json.Unmarshal(input, &cs); err != nil || len(cs.Inputs) != len(cs.Failing) {
		return
	}
	p.compare(c, cs.Inputs, cs.Failing, cs.Depth)
}
