package props

import (
	"encoding/json"
	"fmt"
	"strings"
	"time"

	"verif/fw"
	"verif/gt"
)

// C10: a failed input leaves no trace in the session — history-differential monitor.

type c10 struct{ fw.Base }

func init() { fw.Register(c10{}) }

func (c10) ID() string { return "C10" }
func (c10) Rule() string {
	return "a session H of 5..30 succeeding inputs (typed-grammar statements: globals, functions, closures, loops, prints) is run on one persistent state, and H+ = H with side-effect-free failing inputs inserted at random positions with multiplicity 1..12 " +
		"is run on another; every succeeding input must produce the same printed text, value and error status in both. Failing inputs are immediately-invoked lambdas that bind and print nothing: language errors inside nested calls and at every loop nesting/exit position, " +
		"a Go panic raised by a harness extension inside a function / loop / argument list, the memory guard, the depth guard (MaxDepth 200), and a deadline (for true {} under 5 ms). " +
		"non-trivial = H+ contains >=1 failing input that really failed; distinct = distinct H+ texts. The histogram of failure kinds observed is in the counters."
}
func (c10) NumBatches(tier string) int {
	if tier == "thorough" {
		return 64
	}
	return 16
}
func (c10) Assumptions() []string {
	return []string{"the deadline failure kind uses a real 5 ms timer, but the verdict does not depend on timing: any finite deadline ends the input",
		"failing inputs are constructed so that they complete no side effect before failing (nothing printed, no global bound)"}
}

type c10Case struct {
	Inputs  []string `json:"inputs"`   // H+
	Failing []bool   `json:"is_failing"`
}

var c10Failing = []string{
	`(() => { (() => { 1 + "a" })() })()`,
	`(() => { func zz_in(n) {if n <= 0 {return undefined_name_zz}; zz_in(n - 1)}; zz_in(5) })()`,
	`(() => { for zi = 3 { for zj = 2 { if zj == 1 { error("x") } } } })()`,
	`(() => { for zi = 3 { if zi == 2 { [1, 2][0:1][5:1] } } })()`,
	`(() => { for zk = [1, 2, 3] { for 2 { if zk == 2 { 1 / 0 } } } })()`,
	`(() => { zc = 0; for zc < 5 { zc = zc + 1; if zc == 3 { nil + 1 } } })()`,
	`(() => verif_panic())()`,
	`(() => { for zi = 2 { verif_panic() } })()`,
	`(() => { for zi = 3 { for zj = 3 { if zi + zj == 3 { verif_panic() } } } })()`,
	`((a, b) => a + b)(1, verif_panic())`,
	`(() => { (() => { (() => verif_panic())() })() })()`,
	`(() => [1] * 1152921504606846976)()`,
	`(() => { func zz_rec(n) {zz_rec(n + 1)}; zz_rec(0) })()`,
	`(() => { for zi = 2 { func zz_rec2(n) {[zz_rec2(n + 1)]}; zz_rec2(0) } })()`,
	`(() => { for true {} })()`,
	`(() => { for zi = 1000000000 { for true {} } })()`,
	`(n => { if n > 0 { self(n - 1) } else { "s"[0][0] } })(4)`,
	`1 +`,
	`)`,
}

func c10IsDeadline(s string) bool { return strings.Contains(s, "for true {}") }

func (p c10) run(inputs []string, failing []bool) []runOut {
	ss := newSession(false)
	ss.s.MaxDepth = 200
	outs := make([]runOut, len(inputs))
	for i, in := range inputs {
		d := 5 * time.Second
		if failing != nil && failing[i] && c10IsDeadline(in) {
			d = 5 * time.Millisecond
		}
		outs[i] = ss.eval(in, d)
	}
	return outs
}

func (p c10) compare(c *fw.Ctx, plus []string, failing []bool) {
	c.Eval(1)
	var base []string
	for i, in := range plus {
		if !failing[i] {
			base = append(base, in)
		}
	}
	a := p.run(base, nil)
	b := p.run(plus, failing)
	if anyTimeout(a) {
		c.Count("timeouts_skipped", 1)
		return
	}
	really := 0
	j := 0
	for i := range plus {
		if failing[i] {
			switch {
			case b[i].panicked != "":
				c.Count("failing_kind_panic", 1)
				really++
			case b[i].timedOut:
				c.Count("failing_kind_deadline", 1)
				really++
			case b[i].parseErr != "":
				c.Count("failing_kind_parse_error", 1)
				really++
			case b[i].isErr:
				c.Count("failing_kind_error", 1)
				really++
			default:
				c.Count("failing_input_did_not_fail", 1)
			}
			continue
		}
		if !sameOutcome(a[j], b[i]) {
			// which failing inputs precede it
			var kinds []string
			seen := map[string]bool{}
			for k := 0; k < i; k++ {
				if failing[k] {
					kd := "error"
					switch {
					case b[k].panicked != "":
						kd = "panic"
					case b[k].timedOut:
						kd = "deadline"
					case b[k].parseErr != "":
						kd = "parse"
					}
					if !seen[kd] {
						seen[kd] = true
						kinds = append(kinds, kd)
					}
				}
			}
			c.Violate("trace-left", "trace|after:"+strings.Join(kinds, "+"), c10Case{Inputs: plus, Failing: failing},
				fmt.Sprintf("input %q: without the failing inputs %s; with them %s", clip(plus[i]), outStr(a[j]), outStr(b[i])))
			return
		}
		j++
	}
	if really > 0 {
		c.ShapeH(fnv64(strings.Join(plus, "\x01")))
	}
}

func (p c10) RunBatch(c *fw.Ctx) {
	InitGrol(nil)
	registerHarnessExtensions()
	n := c.Pick(500, 15000)
	for i := 0; i < n; i++ {
		g := gt.NewGen(c.Rng)
		stmts := g.Program(5+c.Rng.IntN(26), 1+c.Rng.IntN(2))
		if !refSessionUsable(stmts) {
			continue // non-terminating, or in the region of the aliasing finding (C06) where values may even become cyclic
		}
		rr := &gt.Renderer{}
		var plus []string
		var failing []bool
		for _, s := range stmts {
			if c.Rng.IntN(4) == 0 {
				f := c10Failing[c.Rng.IntN(len(c10Failing))]
				for k := 1 + c.Rng.IntN(12); k > 0; k-- {
					if c.Rng.IntN(3) == 0 {
						f = c10Failing[c.Rng.IntN(len(c10Failing))]
					}
					plus = append(plus, f)
					failing = append(failing, true)
				}
			}
			plus = append(plus, rr.Stmt(s, ""))
			failing = append(failing, false)
		}
		// always end with observations that exercise output, loops, calls and depth
		for _, obs := range []string{`println("still", "here")`, `for zq = 3 {print(zq)}`, `func zz_d(n) {if n <= 0 {return 0}; 1 + zz_d(n - 1)}; zz_d(40)`} {
			plus = append(plus, obs)
			failing = append(failing, false)
		}
		c.Begin(c10Case{Inputs: plus, Failing: failing})
		p.compare(c, plus, failing)
		if i == 0 {
			c.Sample(map[string]any{"history_with_failing_inputs": plus[:min(len(plus), 20)]})
		}
	}
}

func (p c10) ReplayCase(c *fw.Ctx, input json.RawMessage) {
	InitGrol(nil)
	registerHarnessExtensions()
	var cs c10Case
	if err := json.Unmarshal(input, &cs); err != nil || len(cs.Inputs) != len(cs.Failing) {
		return
	}
	p.compare(c, cs.Inputs, cs.Failing)
}
