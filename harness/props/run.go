package props

import (
	"bytes"
	"context"
	"fmt"
	"math"
	"strings"
	"time"

	"grol.io/grol/eval"
	"grol.io/grol/lexer"
	"grol.io/grol/object"
	"grol.io/grol/parser"
	"verif/gt"
)

// runOut is what one evaluation by the real interpreter produced.
type runOut struct {
	printed  string
	val      gt.Val
	isErr    bool
	errMsg   string
	panicked string
	parseErr string
	timedOut bool
	elapsed  time.Duration // wall time of the evaluation (only used to tell a spent budget from a stale deadline error)
}

// session is one persistent interpreter state with its output buffer.
type session struct {
	s   *eval.State
	out *bytes.Buffer
}

func newSession(noReg bool) *session {
	s := eval.NewState()
	buf := &bytes.Buffer{}
	s.Out = buf
	s.LogOut = buf
	s.NoLog = true
	s.NoReg = noReg
	return &session{s: s, out: buf}
}

// eval runs one input the way repl.EvalOne does (parse in file mode, define/expand macros, Eval,
// recover + Reset on panic) but keeps the result object.
func (ss *session) eval(src string, maxDur time.Duration) (res runOut) {
	ss.out.Reset()
	savedOut := ss.s.Out
	defer func() {
		if r := recover(); r != nil {
			res.panicked = fmt.Sprint(r)
			res.isErr = true
			res.printed = ss.out.String()
			ss.s.Reset()
			ss.s.Out = savedOut
		}
	}()
	l := lexer.New(src)
	p := parser.New(l)
	prog := p.ParseProgram()
	if len(p.Errors()) > 0 {
		res.parseErr = p.Errors()[0]
		res.isErr = true
		return res
	}
	if maxDur <= 0 {
		maxDur = 10 * time.Second
	}
	cancel := ss.s.SetContext(context.Background(), maxDur)
	defer cancel()
	started := time.Now()
	defer func() { res.elapsed = time.Since(started) }()
	ss.s.DefineMacros(prog)
	var node any = prog
	if ss.s.NumMacros() > 0 {
		node = ss.s.ExpandMacros(prog)
	}
	obj := ss.s.EvalToplevel(node)
	res.printed = ss.out.String()
	if ss.s.Context != nil && ss.s.Context.Err() != nil {
		// the deadline expired while it ran: whatever came out (the deadline error may have been turned into another
		// error or a value on its way up) decides nothing
		res.timedOut = true
	}
	if obj.Type() == object.ERROR {
		res.isErr = true
		res.errMsg = obj.(object.Error).Value
		if strings.Contains(res.errMsg, "context deadline exceeded") {
			res.timedOut = true
		}
		return res
	}
	res.val = toVal(obj)
	return res
}

// toVal converts a grol object into a reference-evaluator value by type and structure.
func toVal(o object.Object) gt.Val {
	budget := 3_000_000
	return toValD(o, 0, &budget)
}

// tooLarge stands for (the rest of) a value whose expansion as a tree would not end in reasonable time: containers
// that share sub-containers (v = [v, v] repeated) are small in memory and exponential as a tree. Two such values
// compare equal up to the point where the budget ran out, which is all the monitors can afford to look at.
const tooLarge = "<value too large to expand>"

func toValD(o object.Object, depth int, budget *int) gt.Val {
	*budget--
	if *budget < 0 {
		return tooLarge
	}
	if depth > 20000 { // a container that (through in-place aliasing) contains itself; legitimate values nest far less within the budgets
		return "<nesting deeper than 20000: cyclic container?>"
	}
	o = object.Value(o)
	switch v := o.(type) {
	case object.Integer:
		return v.Value
	case object.Float:
		return v.Value
	case object.Boolean:
		return v.Value
	case object.String:
		return v.Value
	case object.Null:
		return gt.Nil{}
	case object.Error:
		return &gt.Err{Msg: v.Value}
	case object.Function:
		return &gt.Fn{}
	}
	switch o.Type() {
	case object.ARRAY:
		els := object.Elements(o)
		out := make([]gt.Val, len(els))
		for i, e := range els {
			out[i] = toValD(e, depth+1, budget)
		}
		return &gt.Arr{E: out}
	case object.MAP:
		m := o.(object.Map)
		keys := object.Elements(o)
		out := make([]gt.KV, 0, len(keys))
		for _, k := range keys {
			v, _ := m.Get(k)
			out = append(out, gt.KV{K: toValD(k, depth+1, budget), V: toValD(v, depth+1, budget)})
		}
		return &gt.Map{P: out}
	}
	return "?" + o.Type().String() + ":" + o.Inspect()
}

func valStr(v gt.Val) string {
	if v == nil {
		return "<none>"
	}
	s := gt.Inspect(v)
	switch x := v.(type) {
	case int64:
		return "int:" + s
	case float64:
		if math.IsNaN(x) {
			return "float:NaN"
		}
		return "float:" + s
	}
	return s
}

// evalObj evaluates one expression and returns the raw object (nil on parse error/panic/error).
func (ss *session) evalObj(src string) (res object.Object) {
	defer func() {
		if r := recover(); r != nil {
			res = nil
			ss.s.Reset()
		}
	}()
	l := lexer.New(src)
	p := parser.New(l)
	prog := p.ParseProgram()
	if len(p.Errors()) > 0 {
		return nil
	}
	cancel := ss.s.SetContext(context.Background(), 5*time.Second)
	defer cancel()
	obj := ss.s.EvalToplevel(prog)
	if obj.Type() == object.ERROR {
		return nil
	}
	return obj
}

// refSessionUsable runs the statements one by one on a reference interpreter (an error in one input does not stop
// the following ones, like in a REPL session) and reports whether the session is usable for differential monitors:
// terminating within budget and outside the region of the in-place aliasing finding (where values may become cyclic).
func refSessionUsable(stmts []*gt.Node) bool {
	ref := gt.NewRef()
	for _, s := range stmts {
		ref.Run([]*gt.Node{s})
		if ref.Exhausted || ref.BigInPlace {
			return false
		}
	}
	return true
}

// corruptVal reports a map (anywhere inside v) that holds the same key twice: not a value any program can write down.
func corruptVal(v gt.Val, depth int) string {
	if depth > 50 {
		return ""
	}
	switch x := v.(type) {
	case *gt.Arr:
		for _, e := range x.E {
			if w := corruptVal(e, depth+1); w != "" {
				return w
			}
		}
	case *gt.Map:
		for i := range x.P {
			for j := i + 1; j < len(x.P); j++ {
				if gt.Same(x.P[i].K, x.P[j].K) {
					return "key " + valStr(x.P[i].K) + " occurs twice in " + clip(valStr(x))
				}
			}
			if w := corruptVal(x.P[i].K, depth+1); w != "" {
				return w
			}
			if w := corruptVal(x.P[i].V, depth+1); w != "" {
				return w
			}
		}
	}
	return ""
}
