package props

import (
	"encoding/json"
	"fmt"
	"strings"
	"time"
	"verif/gensyn"

	"grol.io/grol/eval"
	"verif/fw"
	"verif/gt"
)

// C04: automatic memoization is unobservable — differential monitor over the cache hook.

type c04 struct{ fw.Base }

func init() { fw.Register(c04{}) }

func (c04) ID() string { return "C04" }
func (c04) Rule() string {
	return "REPL sessions run twice on fresh states, function-result cache enabled and disabled through the build-tag hook, compared input by input (printed text incl. order/multiplicity, value, error status). " +
		"Cache-hostile sessions: pure/printing/failing functions, functions reading and writing globals, reading constants, calling other functions and closures passed as arguments, recursion, closure factories, " +
		"0..6 arguments (hashable, unhashable, >4), called repeatedly with equal and different arguments; between calls globals are mutated, functions/callees/lambdas are redefined, constants are deleted and re-bound; " +
		"non-determinism comes from the harness extension verif_tick() (DontCache) called directly and through wrappers; plus typed-grammar programs split into inputs and replayed twice. " +
		"Extension sweep: every registered extension x 11 argument shapes wrapped in a function and called before and after the world outside the interpreter changes (standard input read to its end, images drawn on, files saved, time passing), in three fresh child processes (cache off, on, off; calls whose answers differ between the two cache-off runs are non-deterministic and not compared). " +
		"non-trivial = the cache-enabled run had >=1 cache hit (hook counter); distinct = distinct session texts."
}
func (c04) NumBatches(tier string) int {
	if tier == "thorough" {
		return 64
	}
	return 16
}
func (c04) Assumptions() []string {
	return []string{"the hook makes every lookup miss and every store a no-op: that run is the reference behaviour", "the real rand()/time.now() are only checked statistically (20 wrapped calls must not all be equal)"}
}
func (c04) MinNontrivial(string) int { return 50 }

type c04Case struct {
	Inputs []string `json:"inputs"`
}

func (p c04) compare(c *fw.Ctx, inputs []string) {
	c.Eval(1)
	h0 := eval.VerifCacheHits
	a := runSession(inputs, sessCfg{}, 3*time.Second)
	hits := eval.VerifCacheHits - h0
	b := runSession(inputs, sessCfg{cacheOff: true}, 3*time.Second)
	c.Count("cache_hits", hits)
	if hits > 0 {
		c.ShapeH(fnv64(strings.Join(inputs, "\x01")))
		c.Count("nontrivial_sessions", 1)
	}
	if anyTimeout(a) || anyTimeout(b) {
		c.Count("timeouts_skipped", 1)
		return
	}
	if anyMemoryGuard(a) || anyMemoryGuard(b) {
		c.Count("memory_guard_skipped", 1)
		return
	}
	i := diffSessions(a, b)
	if i < 0 {
		return
	}
	small := shrinkInputs(inputs, func(in []string) bool {
		x := runSession(in, sessCfg{}, time.Second)
		y := runSession(in, sessCfg{cacheOff: true}, time.Second)
		return !anyTimeout(x) && !anyTimeout(y) && diffSessions(x, y) >= 0
	})
	x := runSession(small, sessCfg{}, 3*time.Second)
	y := runSession(small, sessCfg{cacheOff: true}, 3*time.Second)
	if anyTimeout(x) || anyTimeout(y) || anyMemoryGuard(x) || anyMemoryGuard(y) {
		c.Count("timeouts_skipped", 1) // the re-run of the (shrunk) case spent the harness's budget: nothing decided
		return
	}
	j := diffSessions(x, y)
	if j < 0 {
		small, x, y, j = inputs, a, b, i
	}
	kind := "cache-diff"
	if x[j].panicked != "" || y[j].panicked != "" {
		kind = "cache-panic"
	}
	// signature: which kinds of inputs the shrunk session is made of
	tags := map[string]bool{}
	for _, in := range small {
		switch {
		case strings.HasPrefix(in, "func "):
			tags["funcdef"] = true
		case strings.HasPrefix(in, "del("):
			tags["del"] = true
		case strings.Contains(in, "=>"):
			tags["lambda"] = true
		case strings.Contains(in, "verif_tick"):
			tags["tick"] = true
		}
	}
	var tl []string
	for _, t := range []string{"funcdef", "lambda", "del", "tick"} {
		if tags[t] {
			tl = append(tl, t)
		}
	}
	sig := fmt.Sprintf("%s|n=%d|%s", kind, min(len(small), 9), strings.Join(tl, ","))
	c.Violate(kind, sig, c04Case{Inputs: small},
		fmt.Sprintf("input %d %q: with the cache %s; without %s", j, clip(small[j]), outStr(x[j]), outStr(y[j])))
}

var c04Funcs = []string{
	"func p1(a, b) {a * b + 1}",
	"func pr(a) {println(\"pr\", a); a + 1}",
	"func rg(a) {a + g1}",
	"func wg(a) {g1 = a; a}",
	"func inc() {g1 = g1 + 1; g1}",
	"func rc(a) {a + K1}",
	"func w1(a) {rg(a) * 2}",
	"func w2(a) {pr(a) + p1(a, a)}",
	"func w3(a) {w1(a) + rc(a)}",
	"func er(a) {if a > 2 {error(\"big\", a)}; a}",
	"func fib(n) {if n < 2 {return n}; fib(n - 1) + fib(n - 2)}",
	"func fibp(n) {if n < 2 {print(n); return n}; fibp(n - 1) + fibp(n - 2)}",
	"func mk(s) {c := s; () => {c = c + 1; c}}",
	"func ap(f, a) {f(a)}",
	"func tk(a) {a + verif_tick()}",
	"func wt(a) {tk(a) * 1}",
	"func wwt(a) {wt(a) + 0}",
	"func many(a, b, c, d, e) {a + b + c + d + e}",
	"func va(a, ..) {a + len(..)}",
	"func arr(a) {len(a)}",
	"func gm(k) {gmap[k]}",
	"func sm(k, v) {gmap[k] = v; len(gmap)}",
	"func cl() {g1}",
	"func callcl(f) {f() + 1}",
	"func setonly(v) {g2 = v}",
	"func selfr(n) {if n <= 0 {return g1}; self(n - 1)}",
	"func catchy(a) {catch(er(a)).err}",
	"func lp(n) {t = 0; for i = n {t = t + i + g1}; t}",
	"sq = x => x * x",
	"addg = x => x + g1",
	"twice = (f, x) => f(f(x))",
	// closures over a constant-named or function-valued parameter, dynamic shadowing, nested definitions
	"func mkc(N) {x => x + N}",
	"func mkf(h) {x => h(x) + 1}",
	"func ap2(a) {sq(a)}",
	"func sh(sq, a) {ap2(a)}",
	"func shk(K1, a) {rc(a)}",
	"func outer() {y = g1; func inner(a) {a + g1}; inner}",
	"func outer2(N) {func inner2(a) {a * N}; inner2(3)}",
	"callsq = a => sq(a) * 2",
	// a function that re-binds a function valued global, functions that differ only by name and show it through self,
	// results that hold closures or large (in place updated) containers, log(), drawing on a named image
	"func vf(..) {..}",
	"func vg(a, ..) {println(..); len(..)}",
	"func rebind(x) {r = sq(x); sq = y => y * 2; r}",
	"func unbind(x) {r = sq(x); sq = 3; r}",
	// round 8: the same from functions that never read the name they assign (the assignment reaches the global through
	// the scope chain), from a nested function, from a loop variable and through a parameterless lambda
	"func unbind2() {sq = 3}",
	"func rebind2() {sq = y => y + 1000}",
	"func unbindf() {rg = 7}",
	"func unbind3() {inner = () => {sq = 4}; inner()}",
	"func loopbind() {for sq = 2 {}}",
	"func loopbind2() {for sq = [8] {}}",
	"func four(a, b, c, d) {println(\"four\"); a + b + c + d}",
	"func shot(n) {image.png(n)}",
	"func nm1() {println(self); 1}",
	"func nm2() {println(self); 1}",
	"func counter(s) {c = s; [() => {c = c + 1; c}]}",
	"func counterm(s) {c = s; {\"inc\": () => {c = c + 1; c}}}",
	"func mkbig(n) {a = []; for i = n {a = a + [i]}; a}",
	"func mkbigm(n) {m = {}; for i = n {m[i] = i}; m}",
	"func lg(x) {log(\"hi\", x); x}",
	"func hd(a) {first(a) / 2}",
	"func ty(a) {[type(a), len(a), a]}",
	"func idn(a) {println(a); [a, a == 1, a == [1]]}",
	"func tri(n) {image.move_to(\"ci\", 0, 0); image.line_to(\"ci\", 7, 0); image.line_to(\"ci\", 0, 7); image.close_path(\"ci\"); image.draw(\"ci\", [255, 0, 0]); n}",
	"func px(n) {image.set(\"ci\", n, n, [0, 255, 0]); n}",
}

var c04Fixed = [][]string{
	// a name used through eval() becomes a macro
	{"func foo(x) {x + 1}", "func fe(s) {eval(s)}", `fe("foo(2)")`, "foo = macro(x) {quote(unquote(x) * 10)}", `fe("foo(2)")`, `fe("foo(2)")`},
	{"mm = macro(x) {quote(unquote(x) + 1)}", "func fe(s) {eval(s)}", `fe("mm(2)")`, "mm = macro(x) {quote(unquote(x) + 100)}", `fe("mm(2)")`},
	{"func fe(s) {eval(s)}", `catch(fe("later(2)")).err`, "later = macro(x) {quote(unquote(x) * 2)}", `fe("later(2)")`, "func later2(x) {x}", `catch(fe("later3(2)")).err`, "func later3(x) {x + 3}", `fe("later3(2)")`},
	// lambdas with the same text whose free name is a global in one and a captured parameter in the other
	{"h = x => x * 2", "f = x => h(x)", "f(1)", "func mk(h) {x => h(x)}", "g = mk(y => y + 100)", "g(1)", "f(1)", "g(1)"},
	{"func mk(h) {x => h(x)}", "g = mk(y => y + 100)", "g(1)", "h = x => x * 2", "f = x => h(x)", "f(1)", "g(1)"},
	{"n = 5", "f = x => x + n", "f(1)", "func mk2(n) {x => x + n}", "g = mk2(50)", "g(1)", "f(1)", "k = mk2(7)", "k(1)", "g(1)"},
	// a name used through eval()/unjson()/defun becomes something else
	{"func fe(s) {eval(s)}", "gq = 1", `fe("gq + 1")`, "gq = 5", `fe("gq + 1")`, "del(gq)", `catch(fe("gq + 1")).err`},
	{"func fd(n) {defun(\"dd\", [\"x\"], [\"x + \" + str(n)]); dd(1)}", "fd(1)", "fd(2)", "fd(1)", "dd(5)"},
}

var c04Alike = []string{"[1,2,3,4,5,6,7,8,9]", "[1.0,2,3,4,5,6,7,8,9]", "[1,2,3,4,5,6,7,8,9.0]", "\"[1,2,3,4,5,6,7,8,9]\"", "[1,2,3,4,5,6,7,8,\"9\"]", "[1,2,3,4,5,6,7,8,[9]]",
	"{\"a\":1,\"b\":2,\"c\":3,\"d\":4,\"e\":5}", "{\"a\":1.0,\"b\":2,\"c\":3,\"d\":4,\"e\":5}", "\"{\\\"a\\\":1,\\\"b\\\":2,\\\"c\\\":3,\\\"d\\\":4,\\\"e\\\":5}\"", "{\"a\":1,\"b\":2,\"c\":3,\"d\":4,\"e\":\"5\"}",
	"[1]", "[1.0]", "\"[1]\"", "1", "1.0", "\"1\"", "nil", "\"nil\"", "[nil]", "[\"nil\"]", "{1:1}", "{1.0:1}", "{\"1\":1}"}

var c04Args = []string{"0", "1", "2", "3", "1.0", "0.0", "(-0.0)", "[0.0]", "[(-0.0)]", "\"a\"", "[1]", "[1,2,3,4,5,6,7,8,9]", "{\"k\":1}", "nil", "true"}

func (p c04) session(c *fw.Ctx) []string {
	r := c.Rng
	in := []string{"g1 = 1; g2 = 0; K1 = 10; gmap = {\"a\": 1}"}
	// define a random subset (dependencies included by defining everything referenced lazily: define all then shuffle use)
	for _, f := range c04Funcs {
		if r.IntN(10) < 8 {
			in = append(in, f)
		}
	}
	arg := func() string { return c04Args[r.IntN(len(c04Args))] }
	small := func() string {
		if r.IntN(12) == 0 {
			return []string{"0.0", "(-0.0)", "1.0"}[r.IntN(3)]
		}
		return fmt.Sprint(r.IntN(4))
	}
	n := 10 + r.IntN(40)
	for k := 0; k < n; k++ {
		switch r.IntN(64) {
		case 0:
			in = append(in, "p1("+small()+", "+small()+")")
		case 1:
			in = append(in, "pr("+small()+")")
		case 2:
			in = append(in, "rg("+small()+")")
		case 3:
			in = append(in, "wg("+small()+")")
		case 4:
			in = append(in, "inc()")
		case 5:
			in = append(in, "rc("+small()+")")
		case 6:
			in = append(in, "w1("+small()+")")
		case 7:
			in = append(in, "w2("+small()+")")
		case 8:
			in = append(in, "w3("+small()+")")
		case 9:
			in = append(in, "er("+small()+")")
		case 10:
			in = append(in, "fib("+fmt.Sprint(5+r.IntN(15))+")", "fibp("+fmt.Sprint(r.IntN(6))+")")
		case 11:
			in = append(in, "h1 = mk("+small()+"); h2 = mk("+small()+"); [h1(), h1(), h2(), h1()]")
		case 12:
			in = append(in, "ap(sq, "+small()+")", "ap(addg, "+small()+")", "ap(pr, "+small()+")")
		case 13:
			in = append(in, "tk("+small()+")", "wt("+small()+")", "wwt("+small()+")")
		case 14:
			in = append(in, "many(1, 2, "+small()+", 4, 5)", "many(1, 2, 3, 4, "+small()+")", "many(1, 2, 3, 4, "+small()+")", "va(1, 2, 3, 4, "+small()+", "+small()+")", "va(1, 2, 3, 4, 5, "+small()+")",
				"many(\"a\", \"b\", \"c\", \"d\", \"x"+small()+"\")", "many(\"a\", \"b\", \"c\", \"d\", \"y"+small()+"\")")
		case 15:
			in = append(in, "va(1, "+small()+", "+small()+")", "va("+small()+")")
		case 16:
			in = append(in, "arr("+arg()+")", "p1("+arg()+", "+arg()+")")
		case 17:
			in = append(in, "gm(\"a\")", "sm(\"a\", "+small()+")", "gm(\"a\")")
		case 18:
			in = append(in, "callcl(cl)", "callcl(() => g1 * 2)")
		case 19:
			in = append(in, "setonly("+small()+"); g2")
		case 20:
			in = append(in, "selfr("+small()+")")
		case 21:
			in = append(in, "catchy("+small()+")")
		case 22:
			in = append(in, "lp("+small()+")")
		case 23:
			in = append(in, "twice(sq, "+small()+")", "twice(addg, "+small()+")")
		case 24: // mutate a global
			in = append(in, "g1 = "+fmt.Sprint(r.IntN(5)))
		case 25: // redefine a function
			in = append(in, []string{"func rg(a) {a - g1}", "func p1(a, b) {a + b}", "func pr(a) {println(\"PR2\", a); a}", "func cl() {g1 * 3}", "func er(a) {a}", "func tk(a) {a}"}[r.IntN(6)])
		case 26: // redefine a lambda
			in = append(in, []string{"sq = x => x * x * x", "addg = x => x - g1", "twice = (f, x) => f(x)"}[r.IntN(3)])
		case 27: // delete and re-bind a constant
			in = append(in, "del(K1)", "K1 = "+fmt.Sprint(r.IntN(50)))
		case 28: // change the map
			in = append(in, "gmap = gmap + {\"a\": "+small()+", \"b\": 2}")
		case 29:
			in = append(in, "del(g2)", "g2 = "+small())
		case 30:
			in = append(in, "x = verif_tick(); x > 0")
		case 31:
			in = append(in, "[pr(1), pr(1), pr(2)]")
		case 32:
			in = append(in, "func loc() {v = "+small()+"; inner = () => v + g1; inner()}", "loc()", "loc()")
		case 33:
			in = append(in, "ca = mkc("+small()+"); cb = mkc("+small()+"); [ca(1), cb(1), ca(1), cb(2)]")
		case 34:
			in = append(in, "fa = mkf(sq); fb = mkf(addg); fc = mkf(x => x * "+small()+"); [fa(2), fb(2), fc(2), fa(2)]")
		case 35:
			in = append(in, "ap2("+small()+")", "sh(addg, "+small()+")", "sh(x => x + 7, "+small()+")", "ap2("+small()+")")
		case 36:
			in = append(in, "rc("+small()+")", "shk("+fmt.Sprint(10+r.IntN(3))+", "+small()+")", "rc("+small()+")")
		case 37:
			k := small()
			in = append(in, "gi = outer(); gi("+k+")", "g1 = "+fmt.Sprint(5+r.IntN(5)), "gi("+k+")", "gj = outer(); [gi("+k+"), gj("+k+")]")
		case 38:
			in = append(in, "outer2("+small()+")", "outer2("+small()+")")
		case 39: // re-bind a function valued variable to something else, with = or :=, and back
			// (the users of the variable are called with the same arguments before and after)
			k := small()
			calls := []string{"ap2(" + k + ")", "callsq(" + k + ")", "twice(sq, " + k + ")", "twice(addg, " + k + ")", "ap(sq, " + k + ")"}
			in = append(in, calls...)
			in = append(in, []string{"sq = 5", "sq := x => x + 100", "addg := x => x * g1", "sq = x => x * x", "sq = nil", "twice := (f, x) => x", "ap2 := a => sq(a) + 1000"}[r.IntN(7)])
			in = append(in, calls...)
		case 40:
			in = append(in, "callsq("+small()+")", "twice(callsq, "+small()+")")
		case 48: // a trailing array argument is expanded: [[5]] and [5] are different calls
			in = append(in, "vf([[5]])", "vf([5])", "vf([[5]])", "vg(1, [[7]])", "vg(1, [7])", "vg(1, 7)")
		case 49: // a parameter named like a constant is checked against the constant's current value at every call
			k := small()
			in = append(in, "shk(10, "+k+")", "del(K1)", "K1 = 11", "shk(10, "+k+")", "shk(11, "+k+")", "del(K1)", "K1 = 10")
		case 41:
			k := small()
			in = append(in, "ap2("+k+")", "for sq = [x => x * 2, x => x * 3] {println(ap2("+k+"))}", "ap2("+k+")", "for sq = 3 {}", "ap2("+k+")", "sq = x => x * x")
		case 50:
			k := small()
			in = append(in, "ap2("+k+")", "unbind("+k+")", "catch(ap2("+k+")).err", "sq = x => x * x", "ap2("+k+")")
		case 51:
			in = append(in, "image.new(\"ci\", 2, 2); b1 = shot(\"ci\"); image.set(\"ci\", 0, 0, [255, 0, 0]); b2 = shot(\"ci\"); [b1 == b2, b2 == image.png(\"ci\")]")
		case 62, 63: // a call with exactly four arguments (the most a key holds), then calls with more that agree on those four
			k := small()
			in = append(in, "va(1, 2, 3, "+k+")", "va(1, 2, 3, "+k+", 5)", "va(1, 2, 3, "+k+", 5, 6)", "va(1, 2, 3, "+k+")", "four(1, 2, 3, "+k+")", "catch(four(1, 2, 3, "+k+", 5))",
				"vg(1, 2, 3, "+k+")", "vg(1, 2, 3, "+k+", 9)", "four(1, 2, 3, "+k+")")
		case 59, 60, 61: // a function valued global re-bound from inside a function that never read it
			k := small()
			calls := []string{"ap2(" + k + ")", "callsq(" + k + ")", "twice(sq, " + k + ")", "w1(" + k + ")", "w3(" + k + ")"}
			in = append(in, calls...)
			in = append(in, []string{"unbind2()", "rebind2()", "unbindf()", "unbind3()", "loopbind()", "loopbind2()"}[r.IntN(6)])
			for _, cl := range calls {
				in = append(in, "catch("+cl+")")
			}
			in = append(in, "sq = x => x * x", "func rg(a) {a + g1}")
			in = append(in, calls...)
		case 42:
			in = append(in, "rebind(5)", "rebind(5)", "sq = x => x * x")
		case 43:
			in = append(in, "nm1()", "nm2()", "nm1()")
		case 44:
			in = append(in, "ca = counter(0)[0]; cb = counter(0)[0]; [ca(), ca(), cb()]", "cma = counterm(0).inc; cmb = counterm(0).inc; [cma(), cma(), cmb()]")
		case 45:
			in = append(in, "bb = mkbig(20); bb[0] = 99; [mkbig(20)[0], bb[0]]", "bm = mkbigm(9); bm[0] = 99; [mkbigm(9)[0], bm[0]]")
		case 46:
			in = append(in, "lg("+small()+")", "lg(1)", "lg(1)")
		case 47:
			in = append(in, "image.new(\"ci\", 8, 8); tri(1); p1 = image.png(\"ci\"); image.new(\"ci\", 8, 8); tri(1); p2 = image.png(\"ci\"); p1 == p2",
				"image.new(\"ci\", 8, 8); px(1); q1 = image.png(\"ci\"); image.new(\"ci\", 8, 8); px(1); q2 = image.png(\"ci\"); q1 == q2")
		case 58: // functions that differ only by parentheses that matter (float arithmetic is not associative): not one function
			in = append(in, "fa = () => 0.1 + (0.2 + 0.3); fb = () => 0.1 + 0.2 + 0.3; [fa(), fb(), fa(), fb()]", "ga = x => x * (0.1 * 3.0); gb = x => x * 0.1 * 3.0; [ga(7.0), gb(7.0), ga(7.0)]",
				"ha = x => x - (1 - 2); hb = x => x - 1 - 2; [ha(5), hb(5)]", "ia = (x, y) => [x] + (y + 1); ib = (x, y) => [x] + y + 1; [ia(1, 2), ib(1, 2)]")
		case 55, 56, 57: // arguments that print alike but are different values (an array and its text, 1 and 1.0 inside a large container)
			f := []string{"hd", "ty", "arr", "idn"}[r.IntN(4)]
			for k := 2 + r.IntN(4); k > 0; k-- {
				in = append(in, f+"("+c04Alike[r.IntN(len(c04Alike))]+")")
			}
		default:
			in = append(in, "w2("+small()+") + w3("+small()+")")
		}
	}
	return in
}

func (p c04) RunBatch(c *fw.Ctx) {
	InitGrol(nil)
	registerHarnessExtensions()
	n := c.Pick(250, 8000)
	for i := 0; i < n; i++ {
		in := p.session(c)
		c.Begin(c04Case{Inputs: in})
		p.compare(c, in)
		if i == 0 {
			c.Sample(map[string]any{"session_inputs": in[:min(len(in), 25)]})
		}
	}
	// typed-grammar programs, one input per statement, then all call-like inputs replayed (second evaluation hits the cache)
	m := c.Pick(800, 20000)
	for i := 0; i < m; i++ {
		g := gt.NewGen(c.Rng)
		stmts := g.Program(3+c.Rng.IntN(8), 1+c.Rng.IntN(3))
		if !refSessionUsable(stmts) {
			continue // non-terminating, or in the region of the aliasing finding (C06) where values may even become cyclic
		}
		rr := &gt.Renderer{}
		var in []string
		for _, s := range stmts {
			in = append(in, rr.Stmt(s, ""))
		}
		k := len(in)
		for j := 0; j < k; j++ {
			if stmts[j].K != gt.KFunc {
				in = append(in, in[j])
			}
		}
		c.Begin(c04Case{Inputs: in})
		p.compare(c, in)
	}
	// statistical check on the real non-deterministic extensions
	if c.Batch == 0 {
		c.Eval(1)
		ss := newSession(false)
		ss.eval("func rnd() {rand(1 << 60)}; func wr() {rnd() + 0}; func tn() {time.now()}", time.Second)
		seen := map[string]bool{}
		for k := 0; k < 20; k++ {
			o := ss.eval("wr()", time.Second)
			seen[valStr(o.val)] = true
		}
		if len(seen) < 2 {
			c.Violate("random-memoized", "random-memoized", c04Case{Inputs: []string{"func rnd() {rand(1 << 60)}; func wr() {rnd() + 0}", "wr() x20"}}, "20 calls of a wrapper around rand(1<<60) all returned the same value")
		}
		c.Count("statistical_rand_distinct", int64(len(seen)))
	}
	// fixed sessions: what a memoized call depended on changes in a way that is not an assignment
	for i, in := range c04Fixed {
		if i%c.NBatches == c.Batch {
			c.Begin(c04Case{Inputs: in})
			p.compare(c, in)
			c.Count("fixed_sessions", 1)
		}
	}
	// every extension wrapped in a function, called before and after the world outside the interpreter changes (fresh child processes)
	if c.Batch == 1%c.NBatches {
		p.sweep(c, "")
	}
	// the shipped example and test programs, and mutations of them that still parse, as single inputs
	for fi, src := range corpusPrograms() {
		if fi%c.NBatches != c.Batch {
			continue
		}
		variants := []string{src}
		for m := 0; m < c.Pick(12, 300); m++ {
			mu := gensyn.MutateBytes(c.Rng, src)
			if r := parseSrc(mu, false); r.accepted() {
				variants = append(variants, mu)
			}
		}
		for _, v := range variants {
			in := []string{v}
			c.Begin(c04Case{Inputs: in})
			p.compare(c, in)
			c.Count("corpus_programs", 1)
		}
	}
}

func (p c04) ReplayCase(c *fw.Ctx, input json.RawMessage) {
	InitGrol(nil)
	registerHarnessExtensions()
	var sw c04SweepCase
	if json.Unmarshal(input, &sw) == nil && sw.Check == "extension-sweep" {
		p.sweep(c, sw.Ext)
		return
	}
	var cs c04Case
	if err := json.Unmarshal(input, &cs); err != nil {
		return
	}
	p.compare(c, cs.Inputs)
}
