package props

import (
	"fmt"
	"strings"
	"time"

	"grol.io/grol/eval"
	"grol.io/grol/object"
	"verif/gt"
)

// sessCfg selects the configuration a session runs under.
type sessCfg struct {
	noReg    bool
	cacheOff bool
	maxDepth int
}

var tickCounter int64

// registerHarnessExtensions adds deterministic helper extensions (before extensions.Init freezes nothing: the
// extension table is a plain map, additions are allowed at any time).
func registerHarnessExtensions() {
	if object.IsExtraFunction("verif_tick") {
		return
	}
	_ = object.CreateFunction(object.Extension{
		Name: "verif_tick", MinArgs: 0, MaxArgs: 0, DontCache: true,
		Help: "harness: returns 1,2,3... (non deterministic from the cache's point of view)",
		Callback: func(_ any, _ string, _ []object.Object) object.Object {
			tickCounter++
			return object.Integer{Value: tickCounter}
		},
	})
	_ = object.CreateFunction(object.Extension{
		Name: "verif_rtpanic", MinArgs: 0, MaxArgs: 0, DontCache: true,
		Help: "harness: raises a Go runtime error (write to a nil map), which is not a string panic",
		Callback: func(_ any, _ string, _ []object.Object) object.Object {
			var m map[string]int
			m["x"] = 1
			return object.NULL
		},
	})
	_ = object.CreateFunction(object.Extension{
		Name: "verif_panic", MinArgs: 0, MaxArgs: 0, DontCache: true,
		Help: "harness: panics (a runtime panic source independent of interpreter defects)",
		Callback: func(_ any, _ string, _ []object.Object) object.Object {
			panic("verif_panic called")
		},
	})
}

// runSession evaluates the inputs one after the other on one fresh persistent state.
func runSession(inputs []string, cfg sessCfg, maxDur time.Duration) []runOut {
	tickCounter = 0
	eval.VerifCacheDisabled = cfg.cacheOff
	defer func() { eval.VerifCacheDisabled = false }()
	ss := newSession(cfg.noReg)
	if cfg.maxDepth > 0 {
		ss.s.MaxDepth = cfg.maxDepth
	}
	outs := make([]runOut, len(inputs))
	for i, in := range inputs {
		outs[i] = ss.eval(in, maxDur)
	}
	return outs
}

func outStr(o runOut) string {
	switch {
	case o.parseErr != "":
		return "parse error: " + o.parseErr
	case o.panicked != "":
		return "panic: " + o.panicked
	case o.isErr:
		return fmt.Sprintf("printed %q then error %q", clip(o.printed), o.errMsg)
	}
	return fmt.Sprintf("printed %q value %s", clip(o.printed), clip(valStr(o.val)))
}

// sameOutcome compares two evaluations of the same input: printed text, error status and value.
func sameOutcome(a, b runOut) bool {
	if a.printed != b.printed {
		return false
	}
	ae, be := a.isErr || a.panicked != "", b.isErr || b.panicked != ""
	if ae != be {
		return false
	}
	if ae {
		// both failed: a panic on one side only is still a difference (unless it is a resource guard on both)
		return (a.panicked != "") == (b.panicked != "")
	}
	return gt.Same(a.val, b.val)
}

// diffSessions returns the index of the first input whose outcome differs (-1 if none).
func diffSessions(a, b []runOut) int {
	for i := range a {
		if !sameOutcome(a[i], b[i]) {
			return i
		}
	}
	return -1
}

func anyTimeout(outs []runOut) bool {
	for _, o := range outs {
		if o.timedOut {
			return true
		}
	}
	return false
}

// anyMemoryGuard: the interpreter's memory guard looks at the heap of the whole process, so whether it refuses a
// large allocation is not a function of the program: a run it stopped decides nothing in a differential monitor.
func anyMemoryGuard(outs []runOut) bool {
	for _, o := range outs {
		if strings.HasPrefix(o.panicked, "would exceed memory requesting") {
			return true
		}
	}
	return false
}

func joinInputs(in []string) string { return strings.Join(in, "\n---\n") }

// shrinkInputs removes inputs while fails() keeps holding.
func shrinkInputs(inputs []string, fails func([]string) bool) []string {
	cur := inputs
	for pass := 0; pass < 4; pass++ {
		changed := false
		for i := 0; i < len(cur); i++ {
			cand := append(append([]string{}, cur[:i]...), cur[i+1:]...)
			if len(cand) > 0 && fails(cand) {
				cur = cand
				changed = true
				i--
			}
		}
		if !changed {
			break
		}
	}
	return cur
}

// corpusPrograms returns the shipped example/test programs that are deterministic and stay inside the language
// (no random numbers, clocks, sleeps, terminal, images, shell, introspection), for the differential monitors.
func corpusPrograms() []string {
	var out []string
	for _, b := range Corpus() {
		src := string(b)
		skip := false
		for _, w := range []string{"rand", "time.", "sleep", "info", "type(", "image", "read(", "exec(", "run(", "term.", "load(", "save(", "pi_perf", "1_000_000", "100000"} {
			if strings.Contains(src, w) {
				skip = true
				break
			}
		}
		if !skip && len(src) < 20000 {
			out = append(out, src)
		}
	}
	return out
}
