package props

import (
	"bytes"
	"context"
	"encoding/json"
	"fmt"
	"strings"

	"grol.io/grol/ast"
	"grol.io/grol/eval"
	"grol.io/grol/object"
	"grol.io/grol/repl"
	"verif/canon"
	"verif/fw"
	"verif/gensyn"
)

// C02: print then parse gives the same tree.  C03: formatting is a deterministic fixpoint.
// Both ride on the same case lists (same generator, same seeds).

type c02 struct {
	fw.Base
	id string
}

func init() {
	fw.Register(c02{id: "C02"})
	fw.Register(c02{id: "C03"})
}

func (p c02) ID() string { return p.id }
func (p c02) Rule() string {
	common := "sources: the operator-pair table (every infix/prefix/postfix/call/index/lambda parent x every child kind x side, with and without parentheses, and every pair of 40 statement forms; enumerated completely in both tiers), " +
		"grammar-generated programs (gensyn, whole grammar incl. comments, macros, all literal spellings), the shipped corpus, byte/token mutations of both that the parser still accepts, each also wrapped as a function body; 13 nesting constructs at every depth 1..130 and 18 expression constructs at 16 depths around the parser's nesting limit (2400..10001); normal and compact mode. " +
		"non-trivial = accepted source with >=1 non-comment statement; distinct = distinct canonical trees (canon dump hashed with the mode). "
	if p.id == "C02" {
		return common + "Oracle: canon(parse(print_M(parse S))) = canon(parse S) via three observation points (PrettyPrint, repl.EvalOne FormatOnly, object.Function.Inspect)."
	}
	return common + "Oracle: print_M(parse(print_M(parse S))) = print_M(parse S) bytewise, three in-process prints equal, a fixed cross-sample printed by every worker process (different interning histories) must hash equally, normal mode ends with exactly one newline."
}
func (c02) Exhaustive(string) bool { return true }
func (c02) NumBatches(tier string) int {
	if tier == "thorough" {
		return 64
	}
	return 16
}
func (p c02) Assumptions() []string {
	return []string{"the canonical dump (harness/canon) is the notion of 'structurally identical'; it ignores token positions and, in compact mode, comments",
		"the operator-pair and statement-pair tables are enumerated completely; everything else is sampled"}
}

type rtCase struct {
	Src string `json:"src"` // Go-quoted
}

// stmtForms are the statement forms whose adjacent pairs are enumerated.
var stmtForms = []string{
	"a", "1", "1.5", `"s"`, "true", "-a", "!a", "+a", "^a", "~a", "++a", "--a", "a++", "a--", "a + b", "a = b", "a := 1", "f(a)", "a[1]", "a.b", "[1, 2]", "[]", "{1: 2}", "{}",
	"(a)", "(a + b)", "x => x", "(x, y) => x", "() => 1", "func(x) {x}", "func f(x) {x}", "if a {b}", "if a {b} else {c}", "for a {b}", "for i = 3 {b}",
	"return a", "return", "break", "len(a)", "print(a)", "a[1:]", "a[1:2]", "m = macro(x) {quote(unquote(x))}", "quote(a)", "del(a)", "/* c */", "a[1] = 2", "a.b = 2", "error(a)", "1:3",
}

// exprKids are the child expressions of the operator-pair table.
var exprKids = []string{"a", "1", "a + b", "a - b", "a * b", "a / b", "a % b", "a == b", "a != b", "a < b", "a >= b", "a && b", "a || b", "a & b", "a | b", "a ^ b", "a << b", "a >> b", "a : b", "a = b", "a := b",
	"-a", "!a", "+a", "^a", "~a", "++a", "--a", "a++", "a--", "f(a)", "a[1]", "a.b", "a[1:]", "x => x", "(x, y) => x + y", "() => {1}", "func(x) {x}", "[a]", "{a: b}", "(a)", "if a {b} else {c}", "len(a)", `"s"`, "1.5", "x => y => x"}

// pairTable enumerates the operator-pair sources.
func pairTable() []string {
	var out []string
	add := func(s string) { out = append(out, s) }
	for _, op := range gensyn.InfixOps {
		for _, k := range exprKids {
			add(k + " " + op + " c")
			add("(" + k + ") " + op + " c")
			add("c " + op + " " + k)
			add("c " + op + " (" + k + ")")
		}
	}
	// chains of one operator over literals of every kind, nested to the right, to the left and both
	for _, op := range gensyn.InfixOps {
		for _, l := range [][4]string{{"1", "2", "3", "4"}, {"0.1", "0.2", "0.3", "0.4"}, {"1.5", "2", "3", "4"}, {"1", "2", "3.5", "4"}, {"\"a\"", "\"b\"", "\"c\"", "\"d\""}, {"1", "\"b\"", "3", "4"},
			{"1", "2", "[3]", "4"}, {"a", "2", "3", "4"}, {"1", "2", "3", "a"}, {"true", "false", "true", "false"}, {"nil", "2", "3", "4"}, {"0x10", "2", "3", "4"}, {"1e3", "2", "3", "4"}, {"-1", "2", "3", "4"}, {"1", "2", "-3", "4"}} {
			add(l[0] + " " + op + " (" + l[1] + " " + op + " " + l[2] + ")")
			add("(" + l[0] + " " + op + " " + l[1] + ") " + op + " " + l[2])
			add(l[0] + " " + op + " (" + l[1] + " " + op + " (" + l[2] + " " + op + " " + l[3] + "))")
			add("(" + l[0] + " " + op + " " + l[1] + ") " + op + " (" + l[2] + " " + op + " " + l[3] + ")")
			add(l[0] + " " + op + " (" + l[1] + " " + op + " " + l[2] + ") " + op + " " + l[3])
		}
	}
	for _, op := range gensyn.PrefixOps {
		for _, k := range exprKids {
			add(op + k)
			add(op + " " + k)
			add(op + "(" + k + ")")
		}
	}
	for _, k := range exprKids {
		add("(" + k + ")(c)")   // callee
		add(k + "(c)")          // callee unparenthesised
		add("f(" + k + ")")     // argument
		add("f(c, " + k + ")")  // argument
		add("(" + k + ")[c]")   // indexed
		add(k + "[c]")          //
		add("a[" + k + "]")     // index
		add("a[" + k + ":c]")   // slice bounds
		add("a[c:" + k + "]")   //
		add("(" + k + ").c")    // dot
		add("[" + k + ", c]")   // array element
		add("{" + k + ": c}")   // map key
		add("{(" + k + "): c}") //
		add("{c: " + k + "}")   // map value
		add("x => " + k)        // lambda body
		add("x => (" + k + ")") //
		add("(x => " + k + ")") //
		add("if " + k + " {c}") // condition
		add("for " + k + " {c}")
		add("return " + k)
		add("len(" + k + ")")
		add("func(x) {" + k + "}")
		add("quote(" + k + ")")
	}
	for _, a := range stmtForms {
		for _, b := range stmtForms {
			add(a + "; " + b)
			add(a + "\n" + b)
			add("func() {" + a + "; " + b + "}")
		}
	}
	return out
}

// roundTrip checks one tree in one mode. kind=="" means it held.
func roundTrip(t0 ast.Node, compact bool) (kind, detail string) {
	p1, pm := printNode(t0, compact, false)
	if pm != "" {
		return "print-panic", pm
	}
	r1 := parseSrc(p1, false)
	if r1.panic != "" {
		return "reparse-panic", fmt.Sprintf("printed %q: %s", p1, r1.panic)
	}
	if len(r1.errs) > 0 {
		return "reparse-error", fmt.Sprintf("printed %q does not parse: %s", p1, r1.errs[0])
	}
	if r1.cont {
		return "reparse-continuation", fmt.Sprintf("printed %q asks for more input", p1)
	}
	o := canon.Opts{DropComments: compact}
	c0, c1 := canon.Dump(t0, o), canon.Dump(r1.prog, o)
	if c0 != c1 {
		return "tree-diff", fmt.Sprintf("printed %q parses to a different tree:\n  before %s\n  after  %s", p1, c0, c1)
	}
	return "", ""
}

func wrapProg(n ast.Node) ast.Node {
	if s, ok := n.(*ast.Statements); ok {
		return s
	}
	return &ast.Statements{Statements: []ast.Node{n}}
}

// localise finds the minimal failing subtree and returns a signature for it.
func localise(t0 ast.Node, compact bool, kind string) string {
	// A sub-tree holding an open range (a[n:]'s "n:") may be unparseable on its own without being wrong:
	// an unparseable print of such a sub-tree is not counted as its failure.
	judge := func(n ast.Node) string {
		k, _ := roundTrip(wrapProg(n), compact)
		if (k == "reparse-error" || k == "reparse-continuation") && bareOpenRange(n, false) {
			return ""
		}
		return k
	}
	if sig := pairSig(t0, judge); sig != "" {
		return sig
	}
	node := deepestFailing(t0, func(n ast.Node) bool { return judge(n) != "" })
	if node == nil {
		node = t0
	}
	// statement lists: try adjacent pairs
	if st, ok := node.(*ast.Statements); ok && st != nil && len(st.Statements) >= 2 {
		for i := 0; i+1 < len(st.Statements); i++ {
			pair := &ast.Statements{Statements: []ast.Node{st.Statements[i], st.Statements[i+1]}}
			if k, _ := roundTrip(pair, compact); k != "" {
				for _, st2 := range pair.Statements {
					if cm := operandComment(st2); cm != "" {
						return k + "|comment-operand:" + cm + "|stmtpair"
					}
				}
				if e := edgeDesc(st.Statements[i], false); strings.HasSuffix(e, "comment") {
					if _, top := st.Statements[i].(*ast.Comment); !top {
						return k + "|comment-operand:" + e + "|stmt-end"
					}
				}
				return fmt.Sprintf("%s|stmtpair[%s;%s]", k, edgeDesc(st.Statements[i], false), edgeDesc(st.Statements[i+1], true))
			}
		}
	}
	k, _ := roundTrip(wrapProg(node), compact)
	if k == "" {
		k = kind + "?ctx" // fails only in context
	}
	if cm := operandComment(node); cm != "" {
		return k + "|comment-operand:" + cm + "|" + describe(node)
	}
	var kids []string
	rel := ""
	for _, ch := range children(node) {
		kids = append(kids, describe(ch))
	}
	if in, ok := node.(*ast.InfixExpression); ok {
		rel = "|lprec=" + precRel(in, in.Left)
		if in.Right != nil {
			rel += "|rprec=" + precRel(in, in.Right)
			// what the right operand is made of: the recorded finding is about chains of INTEGER literals only
			rel += "|rleaves=" + leafKinds(in.Right)
		}
	}
	return fmt.Sprintf("%s|%s[%s]%s", k, describe(node), strings.Join(kids, ","), rel)
}

// leafKinds says what the leaves of an operator tree are: "int" (integer literals only), "float" (number literals, at
// least one float), or "other".
func leafKinds(n ast.Node) string {
	kind := "int"
	var walk func(n ast.Node)
	walk = func(n ast.Node) {
		switch v := n.(type) {
		case *ast.InfixExpression:
			walk(v.Left)
			if v.Right != nil {
				walk(v.Right)
			}
		case *ast.IntegerLiteral:
		case *ast.FloatLiteral:
			if kind == "int" {
				kind = "float"
			}
		default:
			kind = "other"
		}
	}
	walk(n)
	return kind
}

// edgeDesc describes the right edge (last=false → we want how the statement ends) or left edge of a statement.
func edgeDesc(n ast.Node, first bool) string {
	for i := 0; i < 50; i++ {
		var next ast.Node
		switch v := n.(type) {
		case *ast.InfixExpression:
			if first {
				next = v.Left
			} else if v.Right != nil {
				next = v.Right
			}
		case *ast.PrefixExpression:
			if !first {
				next = v.Right
			}
		case *ast.CallExpression:
			if first {
				next = v.Function
			}
		case *ast.IndexExpression:
			if first {
				next = v.Left
			} else if v.Literal() == "." {
				next = v.Index
			}
		case *ast.ReturnStatement:
			if !first && v.ReturnValue != nil {
				next = v.ReturnValue
			}
		case *ast.FunctionLiteral:
			if !first {
				return "}"
			}
		}
		if next == nil {
			break
		}
		n = next
	}
	return describe(n)
}

func fnv64(s string) uint64 {
	h := uint64(14695981039346656037)
	for i := 0; i < len(s); i++ {
		h ^= uint64(s[i])
		h *= 1099511628211
	}
	return h
}

// checkSource runs the C02 or C03 oracle on one source text.
func (p c02) checkSource(c *fw.Ctx, src string, deep bool) {
	c.Eval(1)
	r0 := parseSrc(src, false)
	if !r0.accepted() {
		c.Count("not_accepted", 1)
		return
	}
	c.Count("accepted", 1)
	nonComment := 0
	for _, s := range r0.prog.Statements {
		if _, ok := s.(*ast.Comment); !ok {
			nonComment++
		}
	}
	for _, compact := range []bool{false, true} {
		mode := "normal"
		if compact {
			mode = "compact"
		}
		if nonComment > 0 {
			c.ShapeH(fnv64(mode + canon.Dump(r0.prog, canon.Opts{})))
		}
		if p.id == "C02" {
			if kind, detail := roundTrip(r0.prog, compact); kind != "" {
				sig := mode + "|" + localise(r0.prog, compact, kind)
				c.Violate(kind, sig, rtCase{Src: fw.Q(src)}, detail)
				continue
			}
			if deep {
				p.otherObservationPoints(c, src, r0.prog, compact, mode)
			}
			continue
		}
		// C03
		p1, pm := printNode(r0.prog, compact, false)
		if pm != "" {
			continue // C08/C02 business
		}
		for k := 0; k < 2; k++ {
			again, _ := printNode(r0.prog, compact, false)
			if again != p1 {
				c.Violate("nondeterministic-print", mode+"|nondeterministic-print", rtCase{Src: fw.Q(src)}, fmt.Sprintf("two prints of the same tree differ: %q vs %q", p1, again))
			}
		}
		if !compact {
			if !strings.HasSuffix(p1, "\n") || strings.HasSuffix(p1, "\n\n") {
				if len(r0.prog.Statements) > 0 {
					c.Violate("final-newline", mode+"|final-newline|"+describe(r0.prog.Statements[len(r0.prog.Statements)-1]), rtCase{Src: fw.Q(src)}, fmt.Sprintf("normal-mode output %q does not end with exactly one newline", p1))
				}
			}
		}
		r1 := parseSrc(p1, false)
		if !r1.accepted() {
			c.Count("c03_skipped_unparseable_print", 1)
			continue
		}
		p2, _ := printNode(r1.prog, compact, false)
		if p2 != p1 {
			c.Violate("not-fixpoint", mode+"|not-fixpoint|"+fixSig(r0.prog, compact), rtCase{Src: fw.Q(src)}, fmt.Sprintf("first format %q, second format %q", p1, p2))
		}
	}
}

// fixSig localises a fixpoint failure to the smallest subtree that is not a fixpoint alone.
func fixSig(t0 ast.Node, compact bool) string {
	notFix := func(n ast.Node) bool {
		p1, pm := printNode(wrapProg(n), compact, false)
		if pm != "" {
			return false
		}
		r1 := parseSrc(p1, false)
		if !r1.accepted() {
			return false
		}
		p2, _ := printNode(r1.prog, compact, false)
		return p2 != p1
	}
	if sig := pairSig(t0, func(n ast.Node) string {
		if notFix(n) {
			return "x"
		}
		return ""
	}); sig != "" {
		return sig[2:]
	}
	node := deepestFailing(t0, notFix)
	if node == nil {
		node = t0
	}
	if st, ok := node.(*ast.Statements); ok && st != nil && len(st.Statements) >= 2 {
		for i := 0; i+1 < len(st.Statements); i++ {
			pair := &ast.Statements{Statements: []ast.Node{st.Statements[i], st.Statements[i+1]}}
			if notFix(pair) {
				if e := edgeDesc(st.Statements[i], false); strings.HasSuffix(e, "comment") {
					if _, top := st.Statements[i].(*ast.Comment); !top {
						return "comment-operand:" + e + "|stmt-end"
					}
				}
				return fmt.Sprintf("stmtpair[%s;%s]", edgeDesc(st.Statements[i], false), edgeDesc(st.Statements[i+1], true))
			}
		}
	}
	if cm := operandComment(node); cm != "" {
		return "comment-operand:" + cm + "|" + describe(node)
	}
	var kids []string
	for _, ch := range children(node) {
		kids = append(kids, describe(ch))
	}
	if len(kids) > 6 {
		kids = kids[:6]
	}
	return describe(node) + "[" + strings.Join(kids, ",") + "]"
}

// otherObservationPoints: repl.EvalOne with FormatOnly, and object.Function.Inspect of the program wrapped as a function body.
func (p c02) otherObservationPoints(c *fw.Ctx, src string, t0 *ast.Statements, compact bool, mode string) {
	direct, _ := printNode(t0, compact, false)
	var out bytes.Buffer
	s := eval.NewState()
	s.Out = &out
	opts := repl.Options{All: true, FormatOnly: true, Compact: compact, NoColor: true}
	_, panicked, errs, formatted := repl.EvalOne(context.Background(), s, src, &out, opts)
	if panicked || len(errs) > 0 || out.String() != direct || formatted != direct {
		c.Violate("format-api-diff", mode+"|format-api-diff", rtCase{Src: fw.Q(src)},
			fmt.Sprintf("repl.EvalOne(FormatOnly) wrote %q / returned %q (errs %v), PrettyPrint gives %q", out.String(), formatted, errs, direct))
	}
	if !compact {
		return
	}
	// Function.Inspect: evaluate `func(){ <src> }` to a function object (the body is not run).
	hasMacro := strings.Contains(src, "macro")
	if hasMacro {
		return
	}
	wrapped := "func(){" + src + "\n}"
	rw := parseSrc(wrapped, false)
	if !rw.accepted() || len(rw.prog.Statements) != 1 {
		return
	}
	st := eval.NewState()
	st.Out = &out
	var fnObj object.Object
	func() {
		defer func() { _ = recover() }()
		fnObj = st.Eval(rw.prog.Statements[0])
	}()
	fn, ok := fnObj.(object.Function)
	if !ok {
		return
	}
	c.Count("function_inspect_checked", 1)
	ins := fn.Inspect()
	ri := parseSrc(ins, false)
	if !ri.accepted() {
		sig := mode + "|inspect|" + localise(rw.prog, true, "reparse-error")
		c.Violate("inspect-reparse", sig, rtCase{Src: fw.Q(wrapped)}, fmt.Sprintf("Function.Inspect() = %q does not parse: %v cont=%v", ins, ri.errs, ri.cont))
		return
	}
	o := canon.Opts{DropComments: true, IgnoreLambda: true}
	if a, b := canon.Dump(rw.prog, o), canon.Dump(ri.prog, o); a != b {
		sig := mode + "|inspect|" + localise(rw.prog, true, "tree-diff")
		c.Violate("inspect-tree-diff", sig, rtCase{Src: fw.Q(wrapped)}, fmt.Sprintf("Function.Inspect() = %q parses to a different tree:\n  before %s\n  after  %s", ins, a, b))
	}
}

func (p c02) src(c *fw.Ctx, src string, deep bool) {
	c.Begin(rtCase{Src: fw.Q(src)})
	p.checkSource(c, src, deep)
}

func (p c02) RunBatch(c *fw.Ctx) {
	InitGrol(nil)
	// 1. enumerated tables
	tab := pairTable()
	for i, s := range tab {
		if i%c.NBatches != c.Batch {
			continue
		}
		p.src(c, s, true)
		c.Count("pair_table_cases", 1)
	}
	c.Sample(map[string]any{"pair_table_example": "c - (a - b)"})
	// 1b. block nesting of every depth 1..130 (indentation of the long form), for each kind of nesting construct
	nestIdx := 0
	for _, w := range [][2]string{{"if a {", "}"}, {"func f() {", "}"}, {"for a {", "}"}, {"x => {", "}"}, {"if a {b} else {", "}"}, {"if a {b} else if c {", "}"},
		{"m = {\"k\": ", "}"}, {"[1, ", "]"}, {"f(", ")"}, {"for i = 2 {c; ", "; d}"}, {"x = () => {a; ", "}"}, {"if a {/* c */ ", "}"}, {"func g(p) {// c\n", "}"}} {
		for d := 1; d <= 130; d++ {
			nestIdx++
			if nestIdx%c.NBatches != c.Batch {
				continue
			}
			p.src(c, strings.Repeat(w[0], d)+"b"+strings.Repeat(w[1], d), false)
			c.Count("nesting_depth_cases", 1)
		}
	}
	// 1c. expression nesting around the parser's limit (what is accepted must print to something accepted again)
	for _, w := range [][2]string{{"!", ""}, {"-", ""}, {"- ", ""}, {"+", ""}, {"^", ""}, {"!-", ""}, {"-!+", ""}, {"(", ")"}, {"[", "]"}, {"f(", ")"}, {"a - (", ")"}, {"a * -", ""}, {"x => ", ""}, {"{\"k\": ", "}"}, {"-(", ")"}, {"!f(-", ")"}, {"a[", "]"}, {"a + !", ""}} {
		for _, d := range []int{2400, 2500, 2501, 3333, 3334, 4990, 4999, 5000, 5001, 5002, 6000, 9990, 9998, 9999, 10000, 10001} {
			nestIdx++
			if nestIdx%c.NBatches != c.Batch {
				continue
			}
			p.src(c, strings.Repeat(w[0], d)+"b"+strings.Repeat(w[1], d), false)
			c.Count("nesting_limit_cases", 1)
		}
	}
	// 2. generated programs + mutations, each also as function body
	nProg := c.Pick(1500, 60000)
	for i := 0; i < nProg; i++ {
		g := gensyn.New(c.Rng)
		g.Program(1+c.Rng.IntN(4), 1+c.Rng.IntN(5))
		src, _ := gensyn.Render(g.Toks, c.Rng)
		p.src(c, src, i%4 == 0)
		c.Count("generated_programs", 1)
		if i == 1 {
			c.Sample(map[string]any{"generated_program": src})
		}
		if i%3 == 0 {
			p.src(c, "f = func(a, b) {"+src+"\n}", false)
			p.src(c, "f = (a, b) => {"+src+"\n}", false)
		}
		for m := 0; m < 3; m++ {
			p.src(c, gensyn.MutateBytes(c.Rng, src), false)
			ms, _ := gensyn.Render(gensyn.MutateTokens(c.Rng, g.Toks), c.Rng)
			p.src(c, ms, false)
			c.Count("mutations", 2)
		}
	}
	// 3. corpus + mutations
	corpus := Corpus()
	for fi, b := range corpus {
		if fi%c.NBatches != c.Batch {
			continue
		}
		p.src(c, string(b), true)
		c.Count("corpus_files", 1)
		for m := 0; m < c.Pick(40, 1500); m++ {
			p.src(c, gensyn.MutateBytes(c.Rng, string(b)), false)
			c.Count("corpus_mutations", 1)
		}
	}
	// 4. C03: cross-process determinism — every worker prints the same fixed sample after its own (different) history.
	if p.id == "C03" {
		h := uint64(0)
		n := 0
		cross := append([]string{}, tab[:min(len(tab), 400)]...)
		for _, b := range corpus {
			cross = append(cross, string(b))
		}
		for _, s := range cross {
			r := parseSrc(s, false)
			if !r.accepted() {
				continue
			}
			for _, compact := range []bool{false, true} {
				out, _ := printNode(r.prog, compact, false)
				h = h*1099511628211 ^ fnv64(out)
				n++
			}
		}
		c.Digest("cross-sample-format", fmt.Sprintf("%016x/%d", h, n))
		c.Count("cross_sample_prints", int64(n))
	}
}

func (p c02) ReplayCase(c *fw.Ctx, input json.RawMessage) {
	InitGrol(nil)
	var cs rtCase
	if err := json.Unmarshal(input, &cs); err != nil {
		return
	}
	p.checkSource(c, fw.UQ(cs.Src), true)
}

// operandComment reports a comment that sits in operand position (not a statement of a block) inside n.
func operandComment(n ast.Node) string {
	_, isStmts := n.(*ast.Statements)
	for _, ch := range children(n) {
		if ch == nil {
			continue
		}
		if cm, ok := ch.(*ast.Comment); ok {
			if !isStmts {
				return describe(cm)
			}
			continue
		}
		if r := operandComment(ch); r != "" {
			return r
		}
	}
	return ""
}

// deepestFailing returns a minimal failing node: the first node in post-order (children before
// parents) for which fails() holds when the node is printed on its own.
func deepestFailing(n ast.Node, fails func(ast.Node) bool) ast.Node {
	if n == nil {
		return nil
	}
	for _, ch := range children(n) {
		if ch == nil {
			continue
		}
		if _, isComment := ch.(*ast.Comment); isComment {
			continue
		}
		if r := deepestFailing(ch, fails); r != nil {
			return r
		}
	}
	if fails(n) {
		return n
	}
	return nil
}

// bareOpenRange reports an open range (a[n:]'s "n:") that is not the direct index of an index expression inside n.
func bareOpenRange(n ast.Node, directIndex bool) bool {
	if in, ok := n.(*ast.InfixExpression); ok && in.Right == nil {
		if !directIndex {
			return true
		}
		return bareOpenRange(in.Left, false)
	}
	if ix, ok := n.(*ast.IndexExpression); ok {
		return bareOpenRange(ix.Left, false) || bareOpenRange(ix.Index, ix.Literal() == "[")
	}
	for _, ch := range children(n) {
		if ch != nil && bareOpenRange(ch, false) {
			return true
		}
	}
	return false
}

// pairSig searches every statement list of the tree (deepest first) for two adjacent statements that
// fail when printed together on their own while each passes alone, and returns "<kind>|stmtpair[..;..]".
func pairSig(n ast.Node, failKind func(ast.Node) string) string {
	if n == nil {
		return ""
	}
	for _, ch := range children(n) {
		if ch == nil {
			continue
		}
		if r := pairSig(ch, failKind); r != "" {
			return r
		}
	}
	st, ok := n.(*ast.Statements)
	if !ok || st == nil {
		return ""
	}
	for i := 0; i+1 < len(st.Statements); i++ {
		a, b := st.Statements[i], st.Statements[i+1]
		if failKind(wrapProg(a)) != "" || failKind(wrapProg(b)) != "" {
			continue
		}
		pair := &ast.Statements{Statements: []ast.Node{a, b}}
		if k := failKind(pair); k != "" {
			for _, st2 := range []ast.Node{a, b} {
				if cm := operandComment(st2); cm != "" {
					return k + "|comment-operand:" + cm + "|stmtpair"
				}
			}
			if e := edgeDesc(a, false); strings.HasSuffix(e, "comment") {
				if _, top := a.(*ast.Comment); !top {
					return k + "|comment-operand:" + e + "|stmt-end"
				}
			}
			return fmt.Sprintf("%s|stmtpair[%s;%s]", k, edgeDesc(a, false), edgeDesc(b, true))
		}
	}
	return ""
}
