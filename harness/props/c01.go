package props

import (
	"encoding/json"
	"fmt"
	"math"
	"sort"
	"strings"
	"time"

	"grol.io/grol/eval"
	"verif/fw"
	"verif/gt"
)

// C01: evaluation agrees with the reference semantics.

type c01 struct{ fw.Base }

func init() { fw.Register(c01{}) }

func (c01) ID() string { return "C01" }
func (c01) Rule() string {
	return "typed-grammar programs (harness/gt: ints with boundary values, floats, bools, strings, nil, arrays and maps on both sides of the 8/4 thresholds, named/anonymous/=> functions, recursion with fuel through the name and self, " +
		"variadics, closures, if/else, the five loop forms with break/continue/return, = and :=, ++/--, indexing, slicing, every prefix/infix operator, && ||, error()/catch(); a few percent of operands deliberately ill-typed) rendered with a frozen precedence table " +
		"and random layout; each is run by the independent reference evaluator and by the real interpreter on a fresh state (cache and registers on) and printed text, final value (by type and structure) and error/non-error are compared. " +
		"An order-of-evaluation probe wraps every operand of one construct (slice, index, operator chains, call, literals, index assignment, builtin, if) in a call that prints its tag. " +
		"non-trivial = the reference finished within its step budget and evaluated >= 8 nodes; distinct = distinct rendered programs (hash)."
}
func (c01) NumBatches(tier string) int {
	if tier == "thorough" {
		return 64
	}
	return 16
}
func (c01) Assumptions() []string {
	return []string{"the reference evaluator (harness/gt/ref.go) implements DESIGN.md appendix A and is the trusted oracle; the wording of error messages is not compared",
		"programs whose reference run exceeds its step budget, or that update a large array/map in place (the aliasing known finding, judged by C06), are discarded (counted) and not compared",
		"constructs whose semantics the documentation leaves open (loop variable after the loop, parameters/loop variables reassigned to non-integers) are not generated"}
}

type c01Case struct {
	Src string `json:"src"`
}

// diff compares a reference run and a real run; returns "" if they agree.
func c01Diff(refOut string, refVal gt.Val, g runOut) (kind, detail string) {
	refErr := gt.IsErr(refVal)
	if g.parseErr != "" {
		return "parse-error", "the interpreter rejects the program: " + g.parseErr
	}
	if g.panicked != "" {
		if !guardPanic(g.panicked) {
			return "panic", "the interpreter panicked: " + g.panicked
		}
		g.isErr = true // a documented resource guard refused the program: an error outcome
	}
	if g.timedOut {
		return "timeout", "the interpreter did not finish a program the reference finishes within its budget"
	}
	if !strings.Contains(refOut, gt.ErrTextMarker) && refOut != g.printed {
		return "output-diff", fmt.Sprintf("printed %q, reference %q", clip(g.printed), clip(refOut))
	}
	if refErr != g.isErr {
		if g.isErr {
			return "error-vs-value", fmt.Sprintf("the interpreter ends in error %q, the reference in value %s", g.errMsg, valStr(refVal))
		}
		return "value-vs-error", fmt.Sprintf("the interpreter ends in value %s, the reference in an error (%s)", valStr(g.val), refVal.(*gt.Err).Msg)
	}
	if !refErr && !gt.Same(refVal, g.val) {
		return "value-diff", fmt.Sprintf("final value %s, reference %s", valStr(g.val), valStr(refVal))
	}
	return "", ""
}

func clip(s string) string {
	if len(s) > 300 {
		return s[:300] + "…"
	}
	return s
}

// c01Run runs reference and interpreter on a statement list. ok=false when the reference ran out of budget.
var c01MaxDur = 3 * time.Second

func c01Run(stmts []*gt.Node, src string, noReg, cacheOff bool) (kind, detail string, ok bool, steps int) {
	r := gt.NewRef()
	rv := r.Run(stmts)
	if e, isErr := rv.(*gt.Err); isErr && e.Msg == gt.ErrBudget {
		return "", "", false, r.Steps
	}
	if strings.Contains(r.Out.String(), gt.ErrBudget) || r.BigInPlace || r.Exhausted {
		return "", "", false, r.Steps
	}
	if e, isErr := rv.(*gt.Err); isErr && strings.Contains(e.Msg, gt.ErrTooLarge) {
		return "", "", false, r.Steps
	}
	eval.VerifCacheDisabled = cacheOff
	ss := newSession(noReg)
	g := ss.eval(src, c01MaxDur)
	eval.VerifCacheDisabled = false
	kind, detail = c01Diff(r.Out.String(), rv, g)
	if kind != "" {
		detail += fmt.Sprintf(" [reference: %d steps, result %s]", r.Steps, clip(valStr(rv)))
	}
	return kind, detail, true, r.Steps
}

// features lists the node kinds/operators of a program (for signatures).
func features(stmts []*gt.Node) string {
	set := map[string]bool{}
	var walk func(n *gt.Node)
	walk = func(n *gt.Node) {
		if n == nil {
			return
		}
		switch n.K {
		case gt.KInfix:
			set["in:"+n.Op] = true
		case gt.KPrefix:
			set["pre:"+n.Op] = true
		case gt.KIncDec:
			set["incdec"] = true
		case gt.KAssign:
			if n.Define {
				set["define"] = true
			} else {
				set["assign"] = true
			}
		case gt.KIdxAssign:
			set["idxassign"] = true
		case gt.KIndex, gt.KDot:
			set["index"] = true
		case gt.KSlice:
			set["slice"] = true
		case gt.KCall:
			set["call"] = true
		case gt.KBuiltin:
			set["bi:"+n.Op] = true
		case gt.KArray:
			if len(n.Kids) > 8 {
				set["bigarray"] = true
			} else {
				set["array"] = true
			}
		case gt.KMap:
			if len(n.Kids) > 8 {
				set["bigmap"] = true
			} else {
				set["map"] = true
			}
		case gt.KFunc:
			set["func"] = true
		case gt.KIf:
			set["if"] = true
		case gt.KFor:
			set["for:"+n.Op] = true
		case gt.KReturn:
			set["return"] = true
		case gt.KBreak, gt.KContinue:
			set["breakcont"] = true
		case gt.KDel:
			set["del"] = true
		}
		for _, k := range n.Kids {
			walk(k)
		}
		for _, k := range n.Body {
			walk(k)
		}
		for _, k := range n.Else {
			walk(k)
		}
	}
	for _, s := range stmts {
		walk(s)
	}
	keys := make([]string, 0, len(set))
	for k := range set {
		keys = append(keys, k)
	}
	sort.Strings(keys)
	return strings.Join(keys, ",")
}

// shrinkStmts greedily removes statements (at any nesting) and unwraps if/for bodies while fails() holds.
func shrinkStmts(stmts []*gt.Node, fails func([]*gt.Node) bool) []*gt.Node {
	cur := stmts
	for pass := 0; pass < 6; pass++ {
		changed := false
		// delete top-level statements
		for i := 0; i < len(cur); i++ {
			cand := append(append([]*gt.Node{}, cur[:i]...), cur[i+1:]...)
			if len(cand) > 0 && fails(cand) {
				cur = cand
				changed = true
				i--
			}
		}
		// unwrap / shrink nested blocks of each statement
		for i := 0; i < len(cur); i++ {
			n := cur[i]
			if n.K == gt.KIf || n.K == gt.KFor {
				for _, blk := range [][]*gt.Node{n.Body, n.Else} {
					if len(blk) == 0 {
						continue
					}
					cand := append(append(append([]*gt.Node{}, cur[:i]...), blk...), cur[i+1:]...)
					if fails(cand) {
						cur = cand
						changed = true
						break
					}
				}
			}
			if len(n.Body) > 1 {
				for j := 0; j < len(n.Body); j++ {
					cp := *n
					cp.Body = append(append([]*gt.Node{}, n.Body[:j]...), n.Body[j+1:]...)
					cand := append(append(append([]*gt.Node{}, cur[:i]...), &cp), cur[i+1:]...)
					if fails(cand) {
						cur = cand
						n = &cp
						changed = true
						j--
					}
				}
			}
		}
		if !changed {
			break
		}
	}
	return cur
}

func (p c01) one(c *fw.Ctx, stmts []*gt.Node, src string) {
	c.Eval(1)
	kind, detail, ok, steps := c01Run(stmts, src, false, false)
	if !ok {
		c.Count("reference_budget_exhausted", 1)
		return
	}
	if steps >= 8 {
		c.ShapeH(fnv64(src))
	}
	if kind == "" {
		return
	}
	if kind == "timeout" {
		// the reference needs at most a few hundred thousand steps; 3 s not being enough on a saturated machine decides
		// nothing: only a program that still does not finish with twenty times the budget is reported
		c01MaxDur = 60 * time.Second
		k2, _, ok2, _ := c01Run(stmts, src, false, false)
		c01MaxDur = 3 * time.Second
		if !ok2 || k2 != "timeout" {
			c.Count("slow_runs_not_counted", 1)
			if k2 == "" || !ok2 {
				return
			}
			kind = k2
		}
	}
	// shrink with the deterministic renderer
	tries := 0
	fails := func(ss []*gt.Node) bool {
		tries++
		if tries > 150 {
			return false
		}
		c01MaxDur = 400 * time.Millisecond // shrinking candidates that still hang must not cost seconds each
		k, _, ok2, _ := c01Run(ss, gt.Render(ss), false, false)
		c01MaxDur = 3 * time.Second
		return ok2 && k == kind
	}
	small := stmts
	if fails(stmts) {
		small = shrinkStmts(stmts, fails)
	}
	ssrc := gt.Render(small)
	if k2, d2, ok2, _ := c01Run(small, ssrc, false, false); ok2 && k2 == kind {
		src, detail = ssrc, d2
	} else {
		small = stmts
	}
	// attribution: does it go away without the cache / without registers
	attr := ""
	if k, _, ok2, _ := c01Run(small, src, false, true); ok2 && k == "" {
		attr += "|cache-induced"
	}
	if k, _, ok2, _ := c01Run(small, src, true, false); ok2 && k == "" {
		attr += "|register-induced"
	}
	sig := kind + attr + "|" + features(small)
	c.Violate(kind, sig, c01Case{Src: src}, detail+"\nprogram:\n"+src)
}

// c01Scalars are the operands of the enumerated operator table: boundary integers and floats (among them floats
// with the same integer part as an integer and a positive or negative fraction), strings, booleans, nil.
var c01Scalars = []gt.Val{int64(0), int64(1), int64(-1), int64(2), int64(-2), int64(3), int64(-3), int64(63), int64(64), int64(9007199254740993), int64(math.MaxInt64), int64(math.MinInt64),
	0.0, math.Copysign(0, -1), 0.5, -0.5, 1.0, 1.5, -1.5, 2.5, -2.5, -3.25, 3.0, 9007199254740992.0, 9223372036854775808.0, math.Inf(1), math.Inf(-1), math.NaN(),
	"", "a", "ab", "é", true, false, gt.Nil{},
	&gt.Arr{}, &gt.Arr{E: []gt.Val{int64(1)}}, &gt.Arr{E: []gt.Val{1.5, "a"}}}

var c01TableOps = []string{"+", "-", "*", "/", "%", "==", "!=", "<", "<=", ">", ">=", "&&", "||", "&", "|", "^", "<<", ">>"}

// c01Node makes the literal node of a table operand.
func c01Node(v gt.Val) *gt.Node {
	if a, ok := v.(*gt.Arr); ok {
		els := make([]*gt.Node, len(a.E))
		for i, e := range a.E {
			els[i] = c01Node(e)
		}
		return gt.MkArr(els...)
	}
	return gt.Lit(v)
}

func (p c01) RunBatch(c *fw.Ctx) {
	InitGrol(nil)
	// enumerated: every infix operator on every ordered pair of scalars, as operator and through a map lookup
	idx := 0
	for _, a := range c01Scalars {
		for _, b := range c01Scalars {
			idx++
			if idx%c.NBatches != c.Batch {
				continue
			}
			// whether it fails, and its value when it does not (the text of an error is not part of the semantics, so it
			// is never printed: a printed error text would make the whole output incomparable)
			show := func(e *gt.Node) *gt.Node {
				failed := &gt.Node{K: gt.KDot, Kids: []*gt.Node{gt.Bi("catch", e)}, Text: "err"}
				return gt.Bi("println", failed, &gt.Node{K: gt.KIf, Kids: []*gt.Node{failed}, Body: []*gt.Node{gt.Lit(gt.Nil{})}, Else: []*gt.Node{e}, HasElse: true})
			}
			var stmts []*gt.Node
			for _, op := range c01TableOps {
				stmts = append(stmts, show(gt.In(op, c01Node(a), c01Node(b))))
			}
			stmts = append(stmts, show(gt.Idx(&gt.Node{K: gt.KMap, Kids: []*gt.Node{c01Node(a), gt.Lit(int64(1))}}, c01Node(b))),
				show(gt.Pre("-", c01Node(a))), show(gt.Pre("!", c01Node(a))))
			src := gt.Render(stmts)
			c.Begin(c01Case{Src: src})
			p.one(c, stmts, src)
			c.Count("operator_table_pairs", 1)
		}
	}
	p.containerTable(c)
	n := c.Pick(5000, 60000)
	for i := 0; i < n; i++ {
		g := gt.NewGen(c.Rng)
		if i%5 == 0 {
			g.IllTyped = 15
		}
		stmts := g.Program(3+c.Rng.IntN(8), 1+c.Rng.IntN(3))
		src := (&gt.Renderer{R: c.Rng}).Program(stmts)
		c.Begin(c01Case{Src: src})
		p.one(c, stmts, src)
		if i == 3 {
			c.Sample(map[string]any{"program": src})
		}
	}
}

// ReplayCase: a recorded source is re-checked by re-parsing it with the typed front end is not possible (the
// AST is not stored), so the replay re-runs generation is not needed: the source is evaluated and compared with
// the expectation stored alongside. For C01 the witness is the program text plus what the reference expects.
func (p c01) ReplayCase(c *fw.Ctx, input json.RawMessage) {
	InitGrol(nil)
	var cs struct {
		Src     string  `json:"src"`
		WantOut *string `json:"want_out"`
		WantVal *string `json:"want_val"`
		WantErr *bool   `json:"want_err"`
	}
	if err := json.Unmarshal(input, &cs); err != nil {
		return
	}
	c.Eval(1)
	ss := newSession(false)
	g := ss.eval(cs.Src, 10*time.Second)
	if g.panicked != "" {
		c.Violate("panic", "panic|replay", c01Case{Src: cs.Src}, g.panicked)
		return
	}
	if cs.WantOut != nil && g.printed != *cs.WantOut {
		c.Violate("output-diff", "output-diff|replay", c01Case{Src: cs.Src}, fmt.Sprintf("printed %q want %q", g.printed, *cs.WantOut))
	}
	if cs.WantErr != nil && g.isErr != *cs.WantErr {
		c.Violate("error-status", "error-status|replay", c01Case{Src: cs.Src}, fmt.Sprintf("error=%v (%s) want %v", g.isErr, g.errMsg, *cs.WantErr))
	}
	if cs.WantVal != nil && !g.isErr && valStr(g.val) != *cs.WantVal {
		c.Violate("value-diff", "value-diff|replay", c01Case{Src: cs.Src}, fmt.Sprintf("value %s want %s", valStr(g.val), *cs.WantVal))
	}
}

// guardPanic recognises the two documented resource guards.
func guardPanic(msg string) bool {
	return strings.HasPrefix(msg, "would exceed memory requesting") || (strings.HasPrefix(msg, "max depth ") && strings.HasSuffix(msg, " reached"))
}
