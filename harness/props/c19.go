package props

import (
	"encoding/json"
	"fmt"
	"strings"
	"time"

	"verif/fw"
	"verif/gt"
)

// C19: constants cannot be changed by any path — state-observation monitor over mutation attempts.

type c19 struct{ fw.Base }

func init() { fw.Register(c19{}) }

func (c19) ID() string { return "C19" }
func (c19) Rule() string {
	return "sessions that bind an all-upper-case name to a value of each type (int, float, string, bool, nil, 3- and 12-element arrays, 2- and 7-pair maps, function) and then make 1..10 mutation attempts drawn from every syntactic kind " +
		"(= and := with a different / equal / numerically-equal-other-type value, ++ -- prefix and postfix, index and dot assignment, new key, del of an element, use as loop variable in every loop form, as parameter name, assignment from nested functions, closures and loops) " +
		"in every scope (top level, function, nested function, loop); every (type x attempt kind x scope) combination is enumerated once, the rest is random sequences. After each attempt the name is read back at top level and from inside a function and compared (type-strict) with the bound value; " +
		"the whole session is run with registers on and off and the error/non-error outcome of every attempt must agree. non-trivial = session with >=1 attempt; distinct = distinct session texts."
}
func (c19) Exhaustive(string) bool { return true }
func (c19) NumBatches(tier string) int {
	if tier == "thorough" {
		return 32
	}
	return 16
}
func (c19) Assumptions() []string {
	return []string{"an explicit del(NAME) followed by a new binding is allowed by the property and is used between sessions steps only as such",
		"'different value' is judged structurally and by type (5 and 5.0 differ)"}
}

type c19Case struct {
	Inputs []string `json:"inputs"`
	Const  string   `json:"constant"`
}

type c19Val struct{ name, lit, other, equalOther string } // lit containing "X" is a whole input that binds X

var c19Vals = []c19Val{
	{"int", "5", "6", "5.0"},
	{"float", "2.5", "3.5", ""},
	{"floatint", "4.0", "5.0", "4"},
	{"string", `"s"`, `"t"`, ""},
	{"bool", "true", "false", ""},
	{"nil", "nil", "0", ""},
	{"arr3", "[1, 2, 3]", "[1, 2, 4]", "[1, 2.0, 3]"},
	{"arr12", "[1, 2, 3, 4, 5, 6, 7, 8, 9, 10, 11, 12]", "[0, 2, 3, 4, 5, 6, 7, 8, 9, 10, 11, 12]", "[1.0, 2, 3, 4, 5, 6, 7, 8, 9, 10, 11, 12]"},
	{"map2", `{"a": 1, "b": 2}`, `{"a": 1, "b": 3}`, `{"a": 1.0, "b": 2}`},
	{"map7", `{"a": 1, "b": 2, "c": 3, "d": 4, "e": 5, "f": 6, "g": 7}`, `{"a": 9, "b": 2, "c": 3, "d": 4, "e": 5, "f": 6, "g": 7}`, `{"a": 1.0, "b": 2, "c": 3, "d": 4, "e": 5, "f": 6, "g": 7}`},
	{"func", "x => x + 1", "x => x + 2", ""},
	{"zero", "0", "1", "0.0"},                                                 // the first value of for X = 3 {}: the first Set is legal, the others are not
	{"inloopkey", "for i = 3 {if i == 0 {X = {i: \"a\"}}}", "{1: \"a\"}", ""}, // bound inside a loop to a literal holding the loop variable
	{"inloopval", "for i = 1:4 {if i == 1 {X = [i, [i], {\"k\": i}]}}", "[2, [2], {\"k\": 2}]", ""},
	{"namedfunc", "func X(x) {self}", "x => x", "func zother(x) {self}"}, // same text, another name: self and printing tell them apart
	{"poszero", "0.0", "1.5", "(-0.0)"},                                  // -0.0 == 0.0 but 1/X tells them apart
	// containers in their large representation with few elements (a map shrunk by del, a short slice of a long array), and a long
	// array whose elements have equal-comparing neighbours of another type or sign
	{"shrunkmap", "zm = {\"a\": 1, \"b\": 2, \"c\": 3, \"d\": 4, \"e\": 5, \"f\": 6}; del(zm.f); del(zm.e); del(zm.d); X = zm + {}", `{"a": 9, "b": 2, "c": 3}`, ""},
	{"shrunkmapf", "func zmk() {m = {\"a\": 1, \"b\": 2, \"c\": 3, \"d\": 4, \"e\": 5, \"f\": 6}; del(m.f); del(m.e); del(m.d); m}; X = zmk()", `{"a": 9, "b": 2, "c": 3}`, ""},
	{"shortslice", "func zsl() {a = [1, 2, 3, 4, 5, 6, 7, 8, 9, 10]; a[0:3]}; X = zsl()", "[9, 2, 3]", ""},
	{"bigmixed", "[0.0, [1], {\"a\": 1}, 4, 5, 6, 7, 8, 9, 10, 11]", "[0.0, [1], {\"a\": 1}, 4, 5, 6, 7, 8, 9, 10, 12]", "[(-0.0), [1], {\"a\": 1}, 4, 5, 6, 7, 8, 9, 10, 11]"},
	// a function literally named like the constant, held under another name, that assigns itself to that name
	{"selfassign", "zf = func X() {X = self}; del(X); X = 3", "4", "3.0"},
	{"selfassign2", "zg = func X(n) {if n > 0 {X = self}}; del(X); X = [1, 2]", "[1, 3]", "[1, 2.0]"},
	// functions that differ only in where one statement ends and the next begins
	{"fnsep-xor", "x => {y = x + 1; y; ^x}", "x => {y = x + 1; y ^ x}", ""},
	{"fnsep-minus", "x => {y = 3; y; -x}", "x => {y = 3; y - x}", ""},
	{"fnsep-index", "x => {y = [x]; y; [0]}", "x => {y = [x]; y[0]}", ""},
	{"fnsep-call", "x => {y = (z => z + 1); y; (x)}", "x => {y = (z => z + 1); y(x)}", ""},
	{"fnsep-plus", "x => {y = 1; y; +x}", "x => {y = 1; y + x}", ""},
	{"fnsep-not", "x => {y = true; y; !x}", "x => {y = true; y != x}", ""},
	{"closure", "(n => (x => x + n))(1)", "(n => (x => x + n))(2)", "(n => (x => x + n))(3 - 2)"}, // same text, other captured value
}

// attempt templates: X is the constant, V a different value, S the same literal, Q a numerically equal value of another type.
var c19Attempts = []string{
	"X = V", "X := V", "X = S", "X = X", "X = Q", "X := Q",
	"X++", "X--", "++X", "--X",
	"zf()", "zg(1)", "func zh() {zf()}; zh()",
	"ys = X[0:9]; zs = ys + 99", "ys = X[0:2]; zs = ys + 99; ws = ys + [98]", "ys = X[1:]; zs = ys + 1 + 2", "ys = X + 1; zs = X + 2", "func gs() {ys = X[0:1]; ys + 5}; gs()", "ys = X[0:2]; ys[0] = 77",
	"X[0] = 99", "X[-1] = 99", "X[0] = (-0.0)", "X[1] = [1.0]", "X[2] = {\"a\": 1.0}", "X[-1] = 11.0", "X.a = 1.0", "X[\"b\"] = 2.0", "func g10() {X[1] = [1.0]}; g10()", `X.a = 99`, `X["a"] = 99`, `X["newkey"] = 1`, `X.zz = 1`, `del(X["a"])`, `del(X.a)`, `del(X[0])`,
	"for X = 3 {}", "for X = 1:3 {}", "for X = [V, V] {}", "for X = 3 {X}",
	"func fp(X) {X}; fp(V)", "(X => X)(V)", "func fq(X) {X = V; X}; fq(S)", "func fr(a, X) {X}; fr(1, 7)",
	"func g1() {X = V}; g1()", "func g2() {X := V; X}; g2()", "h1 = () => {X = V}; h1()", "func g3() {inner = () => {X = V}; inner()}; g3()",
	"for 2 {X = V}", "for i = 2 {X = V}", "if true {X = V}", "func g4() {X[0] = 99}; g4()", `func g5() {X.a = 99}; g5()`, `func g6() {del(X["a"])}; g6()`,
	"func g7() {X++}; g7()", "func g8() {for X = 2 {}}; g8()", "X = X + V", "[X = V]", "{1: (X = V)}", "catch(X = V)", "println(X = V)",
	"func g9(n) {if n <= 0 {return 0}; X = V; g9(n - 1)}; g9(2)",
	// loops that start at the constant's own value, and unrelated loops / calls that reuse registers
	"for X = S:S + 3 {}", "for X = 0:3 {}", "for X = 4 {X}", "for j9 = 2:7 {}", "for j9 = 5 {for j8 = 2:4 {}}", "func gr(a, b, c) {a + b + c}; gr(11, 12, 13)",
}

var c19Scopes = []string{"%s", "func sc1() {%s}; sc1()", "func sc2() {in2 = () => {%s}; in2()}; sc2()", "for 2 {%s}", "for j9 = 1 {%s}"}

// c19Init is the input that binds the constant.
func c19Init(name string, v c19Val) string {
	if strings.Contains(v.lit, "X") {
		return strings.ReplaceAll(v.lit, "X", name)
	}
	return name + " = " + v.lit
}

func c19Instantiate(tmpl, name string, v c19Val) string {
	q := v.equalOther
	if q == "" {
		q = v.lit
	}
	if strings.Contains(v.lit, "X") { // bound by a whole input: "the same literal" is the name itself
		v.lit, q = name, name
	}
	r := strings.NewReplacer("X", name, "V", "("+v.other+")", "S", "("+v.lit+")", "Q", "("+q+")")
	return r.Replace(tmpl)
}

// run executes one session under one register setting; returns per-attempt error flags and the first change observed.
func c19Run(inputs []string, name string, noReg bool) (errs []bool, changed string) {
	ss := newSession(noReg)
	ss.eval(inputs[0], 3*time.Second)
	init := ss.eval(name, time.Second)
	if init.isErr {
		return nil, "constant not readable after its binding: " + outStr(init)
	}
	ss.eval("func rd_c19() {"+name+"}", time.Second)
	// what a function valued constant does, and the sign of a zero, are part of its value
	behaviour := func() string {
		switch v := init.val.(type) {
		case *gt.Fn:
			return outStr(ss.eval(name+"(10)", time.Second))
		case float64:
			if v == 0 {
				return outStr(ss.eval("1 / "+name, time.Second))
			}
		}
		return ""
	}
	b0 := behaviour()
	for k, in := range inputs[1:] {
		o := ss.eval(in, 3*time.Second)
		errs = append(errs, o.isErr || o.panicked != "")
		if o.panicked != "" && !guardPanic(o.panicked) {
			return errs, fmt.Sprintf("attempt %d %q panicked: %s", k+1, in, o.panicked)
		}
		now := ss.eval(name, time.Second)
		if now.isErr || !gt.Same(init.val, now.val) {
			return errs, fmt.Sprintf("after attempt %d %q the constant reads %s, it was bound to %s", k+1, in, outStr(now), valStr(init.val))
		}
		if b := behaviour(); b != b0 {
			return errs, fmt.Sprintf("after attempt %d %q the constant behaves differently: %s, before %s", k+1, in, b, b0)
		}
		inside := ss.eval("rd_c19()", time.Second)
		if inside.isErr || !gt.Same(init.val, inside.val) {
			return errs, fmt.Sprintf("after attempt %d %q the constant read from inside a function is %s, it was bound to %s", k+1, in, outStr(inside), valStr(init.val))
		}
	}
	return errs, ""
}

func (p c19) one(c *fw.Ctx, inputs []string, name, sigTag string) {
	c.Eval(1)
	c.ShapeH(fnv64(strings.Join(inputs, "\x01")))
	c.Begin(c19Case{Inputs: inputs, Const: name})
	e1, ch1 := c19Run(inputs, name, false)
	e2, ch2 := c19Run(inputs, name, true)
	if ch1 != "" {
		c.Violate("constant-changed", "changed|reg|"+sigTag, c19Case{Inputs: inputs, Const: name}, ch1)
		return
	}
	if ch2 != "" {
		c.Violate("constant-changed", "changed|noreg|"+sigTag, c19Case{Inputs: inputs, Const: name}, ch2)
		return
	}
	for i := range e1 {
		if i < len(e2) && e1[i] != e2[i] {
			c.Violate("outcome-differs", "outcome|"+sigTag, c19Case{Inputs: inputs, Const: name},
				fmt.Sprintf("attempt %d %q: error=%v with registers, error=%v without", i+1, inputs[i+1], e1[i], e2[i]))
			return
		}
	}
}

func (p c19) RunBatch(c *fw.Ctx) {
	InitGrol(nil)
	// enumerated: every value type x attempt x scope, one attempt per session
	idx := 0
	for _, v := range c19Vals {
		for ai, a := range c19Attempts {
			for si, sc := range c19Scopes {
				idx++
				if idx%c.NBatches != c.Batch {
					continue
				}
				name := "KX"
				att := fmt.Sprintf(sc, c19Instantiate(a, name, v))
				p.one(c, []string{c19Init(name, v), att}, name, fmt.Sprintf("%s|a%d|s%d", v.name, ai, si))
				c.Count("enumerated_sessions", 1)
			}
		}
	}
	// every digit and the underscore in a constant's name (the first value type, every attempt, top level)
	for _, name := range []string{"K0", "K1", "K2", "K3", "K4", "K5", "K6", "K7", "K8", "K9", "A_9Z", "Z_", "K90"} {
		for ai, a := range c19Attempts {
			idx++
			if idx%c.NBatches != c.Batch {
				continue
			}
			v := c19Vals[(ai+len(name))%2*6] // int or an array
			p.one(c, []string{c19Init(name, v), c19Instantiate(a, name, v)}, name, fmt.Sprintf("%s|a%d|name", v.name, ai))
			c.Count("enumerated_sessions", 1)
		}
	}
	c.Sample(map[string]any{"session": []string{"KX = [1, 2, 3]", "func sc1() {KX[0] = 99}; sc1()"}})
	// random sequences of 2..10 attempts
	n := c.Pick(300, 6000)
	for i := 0; i < n; i++ {
		v := c19Vals[c.Rng.IntN(len(c19Vals))]
		name := []string{"KX", "A", "MAX_1", "K2B", "K9", "Z0_9", "A5B6C7", "Q_3_4_8", "X_"}[c.Rng.IntN(9)]
		inputs := []string{c19Init(name, v)}
		for k := 2 + c.Rng.IntN(9); k > 0; k-- {
			a := c19Attempts[c.Rng.IntN(len(c19Attempts))]
			sc := c19Scopes[c.Rng.IntN(len(c19Scopes))]
			inputs = append(inputs, fmt.Sprintf(sc, c19Instantiate(a, name, v)))
		}
		p.one(c, inputs, name, v.name+"|random")
		c.Count("random_sessions", 1)
	}
}

func (p c19) ReplayCase(c *fw.Ctx, input json.RawMessage) {
	InitGrol(nil)
	var cs c19Case
	if err := json.Unmarshal(input, &cs); err != nil || len(cs.Inputs) == 0 {
		return
	}
	p.one(c, cs.Inputs, cs.Const, "replay")
}
