package props

import (
	"bytes"
	"context"
	"encoding/json"
	"fmt"
	"os"
	"os/exec"
	"os/signal"
	"path/filepath"
	"strings"
	"syscall"
	"time"

	"grol.io/grol/eval"
	"grol.io/grol/repl"
	"verif/fw"
)

// C18: auto-save is crash-atomic — fault enumeration at hooks, observed from outside.

type c18 struct{ fw.Base }

func init() {
	fw.Register(c18{})
	fw.SubCommands["c18child"] = c18Child
}

func (c18) ID() string    { return "C18" }
func (c18) Level() string { return "fault_enumeration" }
func (c18) Rule() string {
	return "for every pair (previous state, new state) out of {no file, 1 extra binding, 10, 120 (thorough 400) bindings, a value just under the length limit, functions and strings with newlines} a child process auto-loads ./.gr, evaluates the new program and auto-saves; " +
		"it is killed with SIGKILL (build-tag hook, VERIF_CRASH_AT) at EVERY enumerated crash point: before and after creating the temporary file, after each written binding k = 1..n, after the last write, after the rename; and a write failure (injected ENOSPC, VERIF_FAIL_AT) is forced at EVERY write position k; and the operating system itself refuses writes: the child lowers RLIMIT_FSIZE (SIGXFSZ ignored, EFBIG) to 13 limits around the buffer boundaries and the size of the new file - a save that does not fit must leave the previous file, one that fits must produce the complete new one. " +
		"After each fault the parent compares the bytes of ./.gr with the complete previous file and the complete new file (taken from an uninterrupted twin run), and starts a fresh auto-loading child whose globals must equal the previous or the new state; a run that changes nothing must not touch the file. " +
		"non-trivial = fault whose point was really reached (trace fd) ; distinct = distinct (state pair, fault point, k)."
}
func (c18) Exhaustive(string) bool { return true }
func (c18) NumBatches(tier string) int {
	if tier == "thorough" {
		return 16
	}
	return 8
}
func (c18) CaseTimeout() time.Duration { return 120 * time.Second }
func (c18) Assumptions() []string {
	return []string{"process death only: the code never calls fsync, so power loss is outside what the property states",
		"crash points are the hook calls placed between the steps of repl.AutoSave and after each binding written by SaveGlobals; a crash spec whose point is not reached is reported as inconclusive, never as held",
		"leftover temporary files (.grol*.tmp) are not part of the property"}
}

type c18Case struct {
	Old   string `json:"previous_state"`
	New   string `json:"new_state"`
	Fault string `json:"fault"` // e.g. crash:save:binding:3 or fail:save:write:2
}

func c18Program(kind string) string {
	var sb strings.Builder
	switch kind {
	case "none":
		return ""
	case "one":
		return "only_one = 1"
	case "ten":
		for i := 0; i < 10; i++ {
			fmt.Fprintf(&sb, "v%02d = %d\n", i, i*7)
		}
	case "many":
		for i := 0; i < 120; i++ {
			fmt.Fprintf(&sb, "m%03d = [%d, \"s%d\", {\"k\": %d.5}]\n", i, i, i, i)
		}
	case "huge":
		for i := 0; i < 400; i++ {
			fmt.Fprintf(&sb, "h%03d = \"%s\"\n", i, strings.Repeat("x", 20+i%50))
		}
	case "long":
		fmt.Fprintf(&sb, "long_value = \"%s\"\nshort_value = 2\n", strings.Repeat("y", 3900))
	case "funcs":
		sb.WriteString("func fa(a, b) {if a > b {return a}; b}\nfb = x => x * 2\ns_nl = \"line1\\nline2\"\nfunc fc() {println(\"hi\"); [1, 2, 3]}\n")
	case "changed":
		for i := 0; i < 10; i++ {
			fmt.Fprintf(&sb, "v%02d = %d\n", i, i*7+1)
		}
		sb.WriteString("extra = \"new\"\n")
	}
	return sb.String()
}

// c18Child: verifd c18child run <program-file> | dump
func c18Child(args []string) int {
	InitGrolNoMemLimit()
	if len(args) >= 1 && args[0] == "dump" {
		s := eval.NewState()
		s.Out = os.Stderr
		s.MaxValueLen = 4000
		_ = repl.AutoLoad(s, repl.Options{AutoLoad: true})
		var buf bytes.Buffer
		_, _ = s.SaveGlobals(&buf)
		fmt.Print(buf.String())
		return 0
	}
	if len(args) < 2 {
		return 3
	}
	b, err := os.ReadFile(args[1])
	if err != nil {
		return 3
	}
	if lim := os.Getenv("VERIF_FSIZE_LIMIT"); lim != "" {
		// a real write failure from the operating system: no regular file of this process may grow beyond the limit
		// (EFBIG once SIGXFSZ is ignored), wherever and however the save path writes
		var n uint64
		fmt.Sscan(lim, &n)
		signal.Ignore(syscall.SIGXFSZ)
		if err := syscall.Setrlimit(syscall.RLIMIT_FSIZE, &syscall.Rlimit{Cur: n, Max: n}); err != nil {
			fmt.Println("C18RLIMIT-FAILED", err)
			return 3
		}
	}
	opts := repl.EvalStringOptions()
	opts.AutoLoad, opts.AutoSave = true, true
	opts.MaxValueLen = 4000
	_, errs, _ := repl.EvalStringWithOption(context.Background(), opts, string(b))
	fmt.Printf("C18DONE errs=%d\n", len(errs))
	return 0
}

type c18Run struct {
	killed  bool
	exitErr string
	trace   string
	stdout  string
}

func c18Exec(dir string, env []string, args ...string) c18Run {
	exe, _ := os.Executable()
	ctx, cancel := context.WithTimeout(context.Background(), 60*time.Second)
	defer cancel()
	cmd := exec.CommandContext(ctx, exe, append([]string{"c18child"}, args...)...)
	cmd.Dir = dir
	tf, _ := os.CreateTemp(dir, "trace-*")
	defer os.Remove(tf.Name())
	cmd.ExtraFiles = []*os.File{tf}
	cmd.Env = append(append(os.Environ(), "VERIF_TRACE_FD=3", "GOTRACEBACK=none"), env...)
	var out bytes.Buffer
	cmd.Stdout = &out
	cmd.Stderr = &out
	err := cmd.Run()
	tf.Close()
	tb, _ := os.ReadFile(tf.Name())
	r := c18Run{trace: string(tb), stdout: out.String()}
	if err != nil {
		r.exitErr = err.Error()
		if ee, ok := err.(*exec.ExitError); ok {
			if ws, ok := ee.Sys().(syscall.WaitStatus); ok && ws.Signaled() && ws.Signal() == syscall.SIGKILL {
				r.killed = true
			}
		}
	}
	return r
}

func readOrEmpty(path string) ([]byte, bool) {
	b, err := os.ReadFile(path)
	if err != nil {
		return nil, false
	}
	return b, true
}

// prepare builds the previous .gr (bytes, exists) in dir by running the old program without faults.
func c18Prepare(base, tag, oldKind string) (dir string, oldBytes []byte, oldExists bool) {
	dir = filepath.Join(base, tag)
	_ = os.MkdirAll(dir, 0o755)
	if oldKind != "none" {
		_ = os.WriteFile(filepath.Join(dir, "old.prog"), []byte(c18Program(oldKind)), 0o644)
		c18Exec(dir, nil, "run", "old.prog")
	}
	oldBytes, oldExists = readOrEmpty(filepath.Join(dir, ".gr"))
	return dir, oldBytes, oldExists
}

func c18Fresh(base, tag string, oldBytes []byte, oldExists bool, newProg string) string {
	dir := filepath.Join(base, tag)
	_ = os.RemoveAll(dir)
	_ = os.MkdirAll(dir, 0o755)
	if oldExists {
		_ = os.WriteFile(filepath.Join(dir, ".gr"), oldBytes, 0o644)
	}
	_ = os.WriteFile(filepath.Join(dir, "new.prog"), []byte(newProg), 0o644)
	return dir
}

func (p c18) pair(c *fw.Ctx, base, oldKind, newKind string) {
	_, oldBytes, oldExists := c18Prepare(base, "prep-"+oldKind, oldKind)
	newProg := c18Program(newKind)
	// uninterrupted twin: the complete new file and the two states as seen by a fresh session
	twin := c18Fresh(base, "twin", oldBytes, oldExists, newProg)
	vOld := c18Exec(twin, nil, "dump").stdout
	tr := c18Exec(twin, nil, "run", "new.prog")
	newBytes, newExists := readOrEmpty(filepath.Join(twin, ".gr"))
	vNew := c18Exec(twin, nil, "dump").stdout
	nBindings := strings.Count(tr.trace, "reached save:binding ")
	nWrites := strings.Count(tr.trace, "reached save:write ")
	if !strings.Contains(tr.stdout, "C18DONE") {
		c.Violate("twin-failed", "twin-failed", c18Case{Old: oldKind, New: newKind}, "uninterrupted run failed: "+clipTail(tr.stdout, 300))
		return
	}
	if newKind == "none" || nBindings == 0 {
		// nothing changed: the file must not be touched
		c.Eval(1)
		if oldExists != newExists || !bytes.Equal(oldBytes, newBytes) {
			c.Violate("untouched", "nochange-touched", c18Case{Old: oldKind, New: newKind, Fault: "none"}, "a run that changed nothing modified ./.gr")
		}
		c.ShapeH(fnv64("nochange/" + oldKind))
		return
	}
	type fault struct{ env, name string }
	var faults []fault
	faults = append(faults, fault{"VERIF_CRASH_AT=autosave:before-createtemp:1", "crash:autosave:before-createtemp:1"},
		fault{"VERIF_CRASH_AT=autosave:after-createtemp:1", "crash:autosave:after-createtemp:1"})
	step := 1
	if c.Quick() && nBindings > 40 {
		step = nBindings / 25
	}
	for k := 1; k <= nBindings; k += step {
		faults = append(faults, fault{fmt.Sprintf("VERIF_CRASH_AT=save:binding:%d", k), fmt.Sprintf("crash:save:binding:%d", k)})
	}
	faults = append(faults, fault{fmt.Sprintf("VERIF_CRASH_AT=save:binding:%d", nBindings), fmt.Sprintf("crash:save:binding:%d", nBindings)},
		fault{"VERIF_CRASH_AT=autosave:after-saveglobals:1", "crash:autosave:after-saveglobals:1"},
		fault{"VERIF_CRASH_AT=autosave:after-rename:1", "crash:autosave:after-rename:1"})
	for k := 1; k <= nWrites; k += step {
		faults = append(faults, fault{fmt.Sprintf("VERIF_FAIL_AT=save:write:%d", k), fmt.Sprintf("fail:save:write:%d", k)})
	}
	faults = append(faults, fault{fmt.Sprintf("VERIF_FAIL_AT=save:write:%d", nWrites), fmt.Sprintf("fail:save:write:%d", nWrites)})
	// the operating system refuses to let the file grow beyond L bytes, for L around every buffer boundary and the file's size
	seenL := map[int]bool{}
	for _, L := range []int{0, 1, len(newBytes) / 2, len(newBytes) - 1, len(newBytes), len(newBytes) + 1, 4095, 4096, 4097, 8192, len(newBytes) - 4096, len(newBytes) - 4097, len(newBytes) - 100} {
		if L < 0 || seenL[L] {
			continue
		}
		seenL[L] = true
		faults = append(faults, fault{fmt.Sprintf("VERIF_FSIZE_LIMIT=%d", L), fmt.Sprintf("oslimit:filesize:%d", L)})
	}
	for fi, f := range faults {
		if fi%c.NBatches != c.Batch {
			continue
		}
		if strings.HasPrefix(f.name, "oslimit:") {
			p.osLimit(c, base, oldKind, newKind, f.env, f.name, oldBytes, oldExists, newBytes, newProg, vOld, vNew)
			continue
		}
		cs := c18Case{Old: oldKind, New: newKind, Fault: f.name}
		c.Begin(cs)
		c.Eval(1)
		dir := c18Fresh(base, "run", oldBytes, oldExists, newProg)
		r := c18Exec(dir, []string{f.env}, "run", "new.prog")
		isCrash := strings.HasPrefix(f.name, "crash:")
		point := strings.TrimPrefix(strings.TrimPrefix(f.name, "crash:"), "fail:")
		lastColon := strings.LastIndexByte(point, ':')
		reachedLine := "reached " + point[:lastColon] + " " + point[lastColon+1:]
		if !strings.Contains(r.trace, reachedLine+"\n") {
			c.Count("fault_point_not_reached", 1)
			c.Violate("not-reached", "inconclusive:not-reached", cs, "the fault point was never reached: "+clipTail(r.trace, 200))
			continue
		}
		if isCrash && !r.killed {
			c.Violate("not-killed", "harness:not-killed", cs, "the child was not killed at the crash point: "+r.exitErr+" "+clipTail(r.stdout, 200))
			continue
		}
		c.ShapeH(fnv64(oldKind + "/" + newKind + "/" + f.name))
		c.Count("faults_injected", 1)
		got, gotExists := readOrEmpty(filepath.Join(dir, ".gr"))
		isOld := gotExists == oldExists && bytes.Equal(got, oldBytes)
		isNew := gotExists == newExists && bytes.Equal(got, newBytes)
		if !isOld && !isNew {
			c.Violate("torn-file", "torn:"+strings.Join(strings.Split(f.name, ":")[:3], ":"), cs,
				fmt.Sprintf("after %s ./.gr (%d bytes, exists=%v) is neither the previous file (%d bytes, exists=%v) nor the complete new one (%d bytes): %q", f.name, len(got), gotExists, len(oldBytes), oldExists, len(newBytes), clip(string(got))))
			continue
		}
		if !isCrash && !isOld {
			c.Violate("failed-save-changed-file", "failed-save:"+strings.Join(strings.Split(f.name, ":")[:3], ":"), cs, "a save whose write failed replaced the previous file")
			continue
		}
		v := c18Exec(dir, nil, "dump").stdout
		if v != vOld && v != vNew {
			c.Violate("torn-state", "torn-state:"+strings.Join(strings.Split(f.name, ":")[:3], ":"), cs, fmt.Sprintf("a fresh session auto-loads a state that is neither the previous nor the new one: %q", clip(v)))
			continue
		}
		// what the interrupted save left behind (temporary files) must not leak into the NEXT save: a small follow-up
		// session in this directory must write the same file as in a directory that holds nothing but the state file
		follow := "zz_followup = 42\n"
		_ = os.WriteFile(filepath.Join(dir, "follow.prog"), []byte(follow), 0o644)
		fr := c18Exec(dir, nil, "run", "follow.prog")
		clean := c18Fresh(base, "clean", got, gotExists, follow)
		_ = os.Rename(filepath.Join(clean, "new.prog"), filepath.Join(clean, "follow.prog"))
		cr := c18Exec(clean, nil, "run", "follow.prog")
		if strings.Contains(fr.stdout, "C18DONE") && strings.Contains(cr.stdout, "C18DONE") {
			a, aok := readOrEmpty(filepath.Join(dir, ".gr"))
			b, bok := readOrEmpty(filepath.Join(clean, ".gr"))
			c.Count("follow_up_saves_compared", 1)
			if aok != bok || !bytes.Equal(a, b) {
				c.Violate("debris", "debris:"+strings.Join(strings.Split(f.name, ":")[:3], ":"), cs,
					fmt.Sprintf("after %s the next (uninterrupted) save wrote %d bytes, in a directory holding only the state file it writes %d bytes: %q", f.name, len(a), len(b), clip(string(a))))
			}
		}
	}
}

// osLimit runs the new program in a child whose files cannot grow beyond a limit: a save that could not be written
// completely must leave the previous file, one that fits must produce the complete new file.
func (p c18) osLimit(c *fw.Ctx, base, oldKind, newKind, env, name string, oldBytes []byte, oldExists bool, newBytes []byte, newProg, vOld, vNew string) {
	cs := c18Case{Old: oldKind, New: newKind, Fault: name}
	c.Begin(cs)
	c.Eval(1)
	var limit int
	fmt.Sscanf(env, "VERIF_FSIZE_LIMIT=%d", &limit)
	dir := c18Fresh(base, "run", oldBytes, oldExists, newProg)
	r := c18Exec(dir, []string{env}, "run", "new.prog")
	if !strings.Contains(r.stdout, "C18DONE") {
		c.Violate("child-died", "oslimit:child-died", cs, "the child did not survive a refused write: "+r.exitErr+" "+clipTail(r.stdout, 300))
		return
	}
	c.ShapeH(fnv64(oldKind + "/" + newKind + "/" + name))
	c.Count("os_write_limits_injected", 1)
	got, gotExists := readOrEmpty(filepath.Join(dir, ".gr"))
	isOld := gotExists == oldExists && bytes.Equal(got, oldBytes)
	isNew := gotExists && bytes.Equal(got, newBytes)
	fits := limit >= len(newBytes)
	switch {
	case !isOld && !isNew:
		c.Violate("torn-file", "torn:oslimit", cs, fmt.Sprintf("with files limited to %d bytes ./.gr (%d bytes, exists=%v) is neither the previous file (%d bytes, exists=%v) nor the complete new one (%d bytes): %q",
			limit, len(got), gotExists, len(oldBytes), oldExists, len(newBytes), clip(string(got))))
		return
	case fits && !isNew:
		c.Violate("save-lost", "oslimit:save-lost", cs, fmt.Sprintf("the new file (%d bytes) fits the limit of %d bytes but was not saved", len(newBytes), limit))
		return
	}
	if v := c18Exec(dir, nil, "dump").stdout; v != vOld && v != vNew {
		c.Violate("torn-state", "torn-state:oslimit", cs, fmt.Sprintf("a fresh session auto-loads a state that is neither the previous nor the new one: %q", clip(v)))
	}
}

func (p c18) RunBatch(c *fw.Ctx) {
	base := Scratch("c18")
	defer os.RemoveAll(base)
	olds := []string{"none", "one", "ten", "many", "long", "funcs"}
	news := []string{"changed", "one", "many", "long", "funcs", "none"}
	if !c.Quick() {
		olds = append(olds, "huge")
		news = append(news, "huge")
	}
	for _, o := range olds {
		for _, n := range news {
			if c.Quick() && o != "none" && o != "ten" && n != "changed" && n != "none" {
				continue // quick: every previous state with the 'changed' program, and two previous states with every new state
			}
			p.pair(c, base, o, n)
		}
	}
	c.Sample(c18Case{Old: "ten", New: "changed", Fault: "crash:save:binding:3"})
}

func (p c18) ReplayCase(c *fw.Ctx, input json.RawMessage) {
	var cs c18Case
	if err := json.Unmarshal(input, &cs); err != nil || cs.New == "" {
		return
	}
	base := Scratch("c18r")
	defer os.RemoveAll(base)
	saved := *c
	_ = saved
	// run the whole pair in one batch
	c.NBatches, c.Batch = 1, 0
	p.pair(c, base, cs.Old, cs.New)
}
