package props

import (
	"bytes"
	"context"
	"fmt"
	"os"
	"os/exec"
	"strconv"
	"strings"
	"time"

	"verif/fw"
)

// CLI part of C09: the guards as a user configures them, i.e. through the flags of the grol command built from
// $VERIF_REPO's main package (-max-depth, -max-duration), for every way the command takes a program: -c, a file,
// several files (a new interpreter state per file unless -shared-state), standard input (`-`) and #! mode (-s).
// The oracle looks at the process from outside: exit status, what it wrote, how long it took.

type c09CliMode struct {
	name string
	// args builds the command line for the guard flags `guard` and the program file `file` (source `src`).
	args  func(guard []string, file, src string) []string
	stdin bool
}

var c09CliModes = []c09CliMode{
	{name: "command", args: func(g []string, _, src string) []string { return append(g, "-c", src) }},
	{name: "file", args: func(g []string, f, _ string) []string { return append(g, f) }},
	{name: "second-file", args: func(g []string, f, _ string) []string { return append(g, "-no-progress", "empty.gr", f) }},
	{name: "second-file-shared", args: func(g []string, f, _ string) []string {
		return append(g, "-no-progress", "-shared-state", "empty.gr", f)
	}},
	{name: "stdin", args: func(g []string, _, _ string) []string { return append(g, "-") }, stdin: true},
	{name: "shebang", args: func(g []string, f, _ string) []string { return append(g, "-s", f, "arg1") }},
}

// buildCli builds the grol command from the repository's working tree into dir.
func buildCli(dir string) (string, error) {
	goBin := os.Getenv("VERIF_GO")
	if goBin == "" {
		goBin = "go"
	}
	repo := os.Getenv("VERIF_REPO")
	if repo == "" {
		repo = "/repo"
	}
	exe := dir + "/grol-cli"
	cmd := exec.Command(goBin, "build", "-o", exe, ".")
	cmd.Dir = repo
	if out, err := cmd.CombinedOutput(); err != nil {
		return "", fmt.Errorf("building the grol command: %v: %s", err, clipTail(string(out), 400))
	}
	return exe, nil
}

type c09CliRun struct {
	out     string
	rc      int
	elapsed time.Duration
	hung    bool
}

func runCli(exe, dir string, m c09CliMode, guard []string, src string) c09CliRun {
	file := dir + "/cliprog.gr"
	_ = os.WriteFile(file, []byte(src+"\n"), 0o644)
	_ = os.WriteFile(dir+"/empty.gr", []byte("x = 1\n"), 0o644)
	base := []string{"-no-auto", "-quiet"}
	args := m.args(append(base, guard...), "cliprog.gr", src)
	ctx, cancel := context.WithTimeout(context.Background(), 60*time.Second)
	defer cancel()
	cmd := exec.CommandContext(ctx, exe, args...)
	cmd.Dir = dir
	cmd.Env = append(os.Environ(), "GOMEMLIMIT=1GiB", "GOTRACEBACK=single", "HOME="+dir)
	if m.stdin {
		cmd.Stdin = strings.NewReader(src + "\n")
	}
	var ob bytes.Buffer
	cmd.Stdout = &ob
	cmd.Stderr = &ob
	start := time.Now()
	err := cmd.Run()
	r := c09CliRun{out: ob.String(), elapsed: time.Since(start), hung: ctx.Err() != nil}
	if err != nil {
		r.rc = -1
		if ee, ok := err.(*exec.ExitError); ok {
			r.rc = ee.ExitCode()
		}
	}
	return r
}

const c09CliRec = "func f(n) { if n == 0 { return 0 }; 1 + f(n-1) }; println(\"gotto\", f(%d))"

// cliCase decides one (mode, check, depth) triple; kind "" when the guard held.
func (p c09) cliCase(exe, dir string, m c09CliMode, what string, depth int) (kind, detail string) {
	switch what {
	case "depth-over":
		// recursion three times deeper than the configured limit, far below the default limit: must be refused
		r := runCli(exe, dir, m, []string{"-max-depth", strconv.Itoa(depth)}, fmt.Sprintf(c09CliRec, 3*depth))
		if r.hung {
			return "cli-hang", "no exit after 60 s"
		}
		if strings.Contains(r.out, "gotto") || !strings.Contains(r.out, "max depth") || r.rc == 0 {
			return "cli-depth-ignored", fmt.Sprintf("grol -max-depth %d ran a recursion %d deep (exit %d): %s", depth, 3*depth, r.rc, clip(r.out))
		}
	case "depth-under":
		// control: a recursion well inside the limit runs (the flag is not simply refusing everything)
		r := runCli(exe, dir, m, []string{"-max-depth", strconv.Itoa(depth)}, fmt.Sprintf(c09CliRec, depth/8))
		if r.hung {
			return "cli-hang", "no exit after 60 s"
		}
		if !strings.Contains(r.out, fmt.Sprintf("gotto %d", depth/8)) || r.rc != 0 {
			return "cli-depth-overstrict", fmt.Sprintf("grol -max-depth %d refused a recursion %d deep (exit %d): %s", depth, depth/8, r.rc, clip(r.out))
		}
	case "deadline-loop", "deadline-recursion":
		src := "n = 0; for true { n++ }"
		if what == "deadline-recursion" {
			src = "func g(n) { if n < 0 { return 0 }; g(n+1) + g(n+2) }; g(1)"
		}
		r := runCli(exe, dir, m, []string{"-max-depth", strconv.Itoa(depth), "-max-duration", "200ms"}, src)
		if r.hung {
			return "cli-hang", "no exit 60 s after a 200 ms deadline"
		}
		if r.elapsed > 10*time.Second {
			return "cli-late", fmt.Sprintf("exit after %v with -max-duration 200ms", r.elapsed.Round(time.Millisecond))
		}
		if r.rc == 0 || !(strings.Contains(r.out, "deadline") || strings.Contains(r.out, "max depth")) {
			return "cli-deadline-ignored", fmt.Sprintf("exit %d after %v without a deadline report: %s", r.rc, r.elapsed.Round(time.Millisecond), clip(r.out))
		}
	}
	return "", ""
}

var c09CliChecks = []string{"depth-over", "depth-under", "deadline-loop", "deadline-recursion"}

func (p c09) cliDepths(c *fw.Ctx) []int {
	if c.Quick() {
		return []int{40, 2000}
	}
	return []int{16, 40, 300, 2000, 20000}
}

// runCli drives every (mode, check, depth) triple against the freshly built command.
func (p c09) runCliAll(c *fw.Ctx, dir string) {
	exe, err := buildCli(dir)
	if err != nil {
		c.Count("cli_build_failed", 1)
		c.Sample(map[string]any{"cli_build": err.Error()})
		return
	}
	defer os.Remove(exe)
	for _, m := range c09CliModes {
		for _, what := range c09CliChecks {
			for _, d := range p.cliDepths(c) {
				cs := c09Case{Src: m.name + "/" + what, Depth: d, Kind: "cli"}
				c.Begin(cs)
				c.Eval(1)
				kind, detail := p.cliCase(exe, dir, m, what, d)
				c.Count("cli_runs", 1)
				if kind == "" {
					c.Count("cli_guard_observed_"+what, 1)
					c.ShapeH(fnv64(fmt.Sprintf("cli/%s/%s/%d", m.name, what, d)))
					continue
				}
				c.Violate(kind, "cli:"+kind+":"+m.name, cs, m.name+": "+detail)
			}
		}
	}
}

func (p c09) replayCli(c *fw.Ctx, cs c09Case, dir string) {
	exe, err := buildCli(dir)
	if err != nil {
		return
	}
	defer os.Remove(exe)
	parts := strings.SplitN(cs.Src, "/", 2)
	if len(parts) != 2 {
		return
	}
	for _, m := range c09CliModes {
		if m.name == parts[0] {
			c.Eval(1)
			if kind, detail := p.cliCase(exe, dir, m, parts[1], cs.Depth); kind != "" {
				c.Violate(kind, "cli:"+kind+":"+m.name, cs, m.name+": "+detail)
			}
		}
	}
}
