package props

import (
	"strings"

	"verif/fw"
)

// Frames (round 8): productions with two or three operand slots, every slot filled with every token of the alphabet —
// nil sub-trees met in pairs (two parameters that both failed to parse) are out of reach of single-token mutations
// and of the exhaustive strings of 3–4 tokens.
var c08Frames2 = []string{
	"( _ , _ ) => 1", "f = ( _ , a , _ ) => a", "( a , _ , _ ) => a", "func f( _ , _ ) { a }", "func ( _ , _ ) { }", "[ _ , _ ]", "{ _ : _ }", "{ a : _ , _ : 1 }",
	"f( _ , _ )", "a[ _ : _ ]", "a[ _ ][ _ ]", "if _ { _ }", "if a { _ } else { _ }", "for _ = _ { }", "for _ { _ }", "m = macro( _ , _ ) { quote(a) }", "( _ ) => _", "_ => _",
	"a . _ . _", "x = _ ; _", "_ ( _ )", "_ [ _ ]", "( _ ) ( _ )", "- _ + _", "a _ b _ c", "quote( _ , _ )", "unquote( _ ) + _", "return _ ; _", "a ? _ : _", "{ _ }  _",
}

var c08Frames3 = []string{"( _ , _ , _ ) => 1", "func f( _ , _ , _ ) { }", "{ _ : _ , _ : 1 }", "a[ _ : _ ] = _", "if _ { _ } else if _ { }", "f( _ , _ , _ )", "for _ = _ : _ { }", "_ _ _ => 1"}

// a reduced alphabet for the three-slot frames: the tokens that are not operands
var c08Junk = []string{"<<", ",", ")", "(", "]", "[", "}", "{", "=>", ":", "=", "..", ".", "*", "-", "++", "!", "else", "func", "a", "1", "\"s\"", ";", ""}

func (p c08) frames(c *fw.Ctx) {
	idx := 0
	fill := func(frame string, toks []string) {
		parts := strings.Split(frame, "_")
		var b strings.Builder
		for i, part := range parts {
			b.WriteString(part)
			if i < len(toks) {
				b.WriteString(toks[i])
			}
		}
		idx++
		if idx%c.NBatches != c.Batch {
			return
		}
		p.both(c, b.String())
		c.Count("frame_fillings", 1)
	}
	for _, f := range c08Frames2 {
		for _, a := range c08Alphabet {
			for _, b := range c08Alphabet {
				fill(f, []string{a, b})
			}
		}
	}
	for _, f := range c08Frames3 {
		for _, a := range c08Junk {
			for _, b := range c08Junk {
				for _, d := range c08Junk {
					fill(f, []string{a, b, d})
				}
			}
		}
	}
}
