package props

import (
	"bytes"
	"context"
	"encoding/json"
	"fmt"
	"grol.io/grol/object"
	"os"
	"sort"
	"strings"
	"time"

	"grol.io/grol/eval"
	"grol.io/grol/extensions"
	"grol.io/grol/repl"
	"verif/fw"
	"verif/gt"
)

// C14: saved state loads back to the same state — round-trip monitor through real files.

type c14 struct{ fw.Base }

func init() { fw.Register(c14{}) }

func (c14) ID() string { return "C14" }
func (c14) Rule() string {
	return "environments of 1..30 globals built by evaluating source in a session: typed-grammar programs (ints incl. both int64 extremes, floats integral-valued/subnormal/1e21/1e300/Inf/NaN/-0, strings, nested arrays and maps with keys of every type, named functions, func and => lambdas) " +
		"plus a fixed hostile set (strings over all 256 byte values, values around the configured length limit). Each environment is saved with SaveGlobals to a real file in a scratch directory and reloaded three ways into fresh sessions: repl.AutoLoad (line by line), the load() extension, and auto-save -> auto-load through repl.EvalStringWithOption; 1..3 cycles. " +
		"Oracle: every data global reloads with equal type and value, every function agrees on sampled argument tuples, the file has exactly one line per reported binding, a second save is byte-identical, over-long values are absent (not truncated). " +
		"non-trivial = environment with >=3 saved bindings; distinct = distinct saved files."
}
func (c14) NumBatches(tier string) int {
	if tier == "thorough" {
		return 64
	}
	return 16
}
func (c14) Assumptions() []string {
	return []string{"'behaves identically on every argument' is sampled: each saved function is called on a few argument tuples matching its arity in both sessions",
		"functions are defined at top level (their free variables are globals, which are saved too); closures over a finished call's environment are not generated"}
}

type c14Case struct {
	Build []string `json:"build_inputs"`
}

var c14Hostile = []string{
	`imin = -9223372036854775807 - 1; imax = 9223372036854775807`,
	`f1 = 1.0; f2 = 2.5; f3 = 1e21; f4 = 1e300; f5 = 5e-324; f6 = -0.0; f7 = 1e15; f8 = 123456789.0; f9 = 0.1 + 0.2`,
	`pinf = Inf; ninf = -Inf; nan = NaN`,
	`s1 = "\x00\x01\x02\x03\x04\x05\x06\x07\x08\x09\x0a\x0b\x0c\x0d\x0e\x0f\x10\x11\x12\x13\x14\x15\x16\x17\x18\x19\x1a\x1b\x1c\x1d\x1e\x1f"`,
	`s2 = " !\"#$%&'()*+,-./0123456789:;<=>?@ABCDEFGHIJKLMNOPQRSTUVWXYZ[\\]^_` + "`" + `abcdefghijklmnopqrstuvwxyz{|}~\x7f"`,
	`s3 = "\x80\x81\x8f\x90\x9f\xa0\xad\xbf\xc0\xc1\xc2\xdf\xe0\xef\xf0\xf4\xf5\xfe\xff"; s4 = "é世\u200f\ufeff\U0001f600"; s5 = "line1\nline2\r\n\ttab"`,
	`nested = [1, [2.0, ["x", nil, true, {"k": [1.0, {}]}]], {}]`,
	`mk = {1: "int", 1.5: "float", "s": "str", true: "bool", nil: "nil", [1, 2]: "arr", {"a": 1}: "map", 2.0: "float2"}`,
	`big = [1.0, 2, 3.5, "4", nil, true, [], {}, 9.0, 10, 11.0]; bigm = {"a": 1.0, "b": 2, "c": [3.0], "d": {"e": 4.0}, "f": nil, "g": -0.0}`,
	`func named(a, b) {if a > b {return a - b}; a * b + 1.0}`,
	`lam = (x, y) => x + y * 2.0; lam1 = x => x || false; lam0 = () => 1.0; lamr = () => {return 3}`,
	`lamm = x => {{"a": 1, "b": 2}[x]}; lamd = (a, b) => {{"p": a}.p + b}; lamm2 = () => {{"a": 1}}; lamn = a => (b => a + b); lams = x => {{"a": [1, 2, 3]}.a[0:x]}; lamq = x => {{1: 2}[1] == x}`,
	`func ql(x) {"\"" + x + "\"\n"}; qs = () => "a\"b\nc"; qt = x => "it's \"" + x + "\"\ttab"; qn = () => "line1\nline2"; qb = () => "back` + "`" + `tick\"q\"\n"`,
	`mmin = {(-9223372036854775807 - 1): "min", 5: {(-9223372036854775807 - 1): [(-9223372036854775807 - 1)]}}; amin = [{(-9223372036854775807 - 1): 1.0}]`,
	`ge = [1, 2]; gzz = 0.0; gmm = {"k": 1}`,
	`func fal(a) {a + 1}; gal = fal; hal = gal`,
	`func fz(x) {x + 1}; gz = fz; fz = 3`,
	`func fy(x) {x + 1}; gy = fy; del(fy)`,
	`bigs = "x" * 70000; zlast = 7`,
	`gx = 1; func zz_setgx() {gx = 5}`,
	`func vari(a, ..) {len(..) + a}`,
	`func usesglobals(n) {n + imax % 7 + len(s5)}`,
	`func strs() {"q\"uote" + "\x01\xff" + "tab\t"}`,
	`func loops(n) {t = 0.0; for i = n {if i == 2 {continue}; t = t + i}; for x = [1, 2.0] {t = t + x}; t}`,
	`func maps() {m = {"a": 1.0, 2: [3]}; m.b = 2; m[nil] = 0; m}`,
	`func neg() {-(1.0) - -2}`,
	`l40 = "0123456789012345678901234567890123456789"`,
	// quoted code held by a global (one line per binding whatever the code looks like), and the length limit applied to functions too
	`q1 = quote(if a {1} else {2}); q2 = quote(func(x) {y = x; y + 1}); q3 = [quote(for i = 3 {println(i)})]; q4 = quote(a + b)`,
	`func longf(x) {"0123456789012345678901234567890123456789012345678901234567890123456789"}; shortv = 1`,
	// predefined library names re-bound by the session
	`abs = x => x * x; log2 = 42; func str(x) {"<" + sprintf("%v", x) + ">"}`,
	`keys = 7; printf = nil; func max3(a, b, c) {max(a, b, c)}`,
	// named functions held inside containers while their name is bound to something else by now
	`func fq(x) {x + 1}; zq = [fq, {"k": fq}]; fq = 3`,
	`func fq2(x) {x + 1}; zq2 = {"k": fq2, "l": [fq2]}; func fq2(x) {x + 2}`,
	`func fq3(x) {x * 2}; zq3 = [[fq3]]; del(fq3)`,
	// bodies whose consecutive statements would mean something else if they were joined
	`func j1(a, r) {max(a, 2); (x => x + r)(a)}; func j2(a, r) {if a > 0 {r = r + 1}; (x => x + r)(a)}; func j3(a) {[a][0]; (a + 1) * 2}; func j4(a, b) {a; -b}; func j5(a, b) {a; ^b}; func j6(a, b) {a; +b}`,
	`func j7(a, b) {c = a; [b][0]}; func j8(a) {a; (a)}; func j9(a, b) {x = {"k": a}; {"z": b}.z}; func j10(a, b) {a; !b}; func j11(f, b) {f; (b)}; j12 = (a, b) => {len(a); (y => y * 2)(b)}; j13 = (a, b) => {a[0]; (b)}`,
	`func j14(a, b) {for 2 {a = a + 1}; (z => z + a)(b)}; func j15(a, b) {x = (a); (b)}; func j16(a, b) {a++; ++b; [a, b]}; func j17(a, b) {a--; -b}; func j18(a, b) {a; ++b}; func j19(a) {if a > 1 {return}; (a)}; func j20(a, b) {m = {}; m.k = a; (b)}`,
	// operators next to operators of the same character
	`func k1(a, b) {[a - --b, a, b]}; func k2(a, b) {[a + ++b, a, b]}; func k3(a, b) {a - -b}; func k4(a, b) {a + +b}; func k5(a, b) {a - -(-b)}; func k6(a, b) {x = a--; x - -b}; func k7(a, b) {a < -b}; func k8(a, b) {a & ^b}; func k9(a, b) {!(!a) && !b}`,
	`func k10(a, b) {a / (b / 2.0)}; func k11(a, b) {a - (b - 1)}; func k12(a, b) {(a = b) + 1}; func k13(a, b) {-(a + b) * 2}; func k14(a, b) {a ^ ^b}; func k15(a, b) {a % -b}; func k16(a, b) {a << -(-b)}; func k17(a, b) {[a++ + b, a]}; func k18(a, b) {[a-- - b, a]}`,
	// globals only ever changed from inside functions (assigned, read then assigned, incremented, appended to)
	`gc = 1; func zz_incgc() {gc = gc + 1}`,
	`gp = 0; func zz_ppgp() {gp++; nil}`,
	`gar = []; func zz_appgar() {gar = gar + [1.5]; nil}`,
	`gmp = {"n": 0}; func zz_setgmp() {gmp.n = gmp.n + 1; nil}`,
}

// Round 8: every operator expression in every operand slot of a function body (a map value written (a && b) must be
// saved with its parentheses: the slot decides which operators need them).
func init() {
	exprs := []string{"a = b", "y => y + a", "-a", "!a", "a++", "if a > b {a} else {b}", "a[0]", "a.k", "a(b)", "[a, b]", "{a: b}", "a:b"}
	for _, op := range []string{"+", "-", "*", "/", "%", "==", "!=", "<", "<=", ">", ">=", "&&", "||", "&", "|", "^", "<<", ">>"} {
		exprs = append(exprs, "a "+op+" b")
	}
	slots := []string{`{"r": (%s)}.r`, `{"r": (%s), "s": 1}`, `{(%s): 1}`, `[(%s)][0]`, `[1, 2, 3][(%s)]`, `max((%s), 0)`, `"abcdef"[(%s):4]`, `"abcdef"[1:(%s)]`,
		`(%s) + 1`, `1 - (%s)`, `-(%s)`, `!(%s)`, `x = (%s); x`, `(%s).k`, `(%s)[0]`, `(%s)(1)`, `if (%s) {1} else {2}`, `for i = (%s) {return i}; 0`}
	k := 0
	var line []string
	for si, sl := range slots {
		for ei, e := range exprs {
			line = append(line, fmt.Sprintf("func s%d_%d(a, b) {%s}", si, ei, strings.ReplaceAll(sl, "%s", e)))
			k++
			if k%30 == 0 {
				c14Hostile = append(c14Hostile, strings.Join(line, "; "))
				line = nil
			}
		}
	}
	if len(line) > 0 {
		c14Hostile = append(c14Hostile, strings.Join(line, "; "))
	}
}

// c14Setters: a session whose only change to the globals is made by calling the function; the saved file must then hold the line.
var c14Setters = []struct{ fn, want string }{
	{"zz_setgx", "\ngx=5\n"}, {"zz_incgc", "\ngc=2\n"}, {"zz_ppgp", "\ngp=1\n"}, {"zz_appgar", "\ngar=[1.5]\n"}, {"zz_setgmp", "\ngmp={\"n\":1}\n"},
}

func init() {
	// strings over all byte values written as raw bytes (backquoted), so that building them does not go through the
	// escape decoder that reloading the saved (escaped) form exercises
	var lo, hi []byte
	for b := 1; b < 256; b++ {
		if b == '`' {
			continue
		}
		if b < 128 {
			lo = append(lo, byte(b))
		} else {
			hi = append(hi, byte(b))
		}
	}
	c14Hostile = append(c14Hostile, "rawlo = `"+string(lo)+"`", "rawhi = `"+string(hi)+"`", "rawm = {`"+string(hi[:40])+"`: [`"+string(lo[:31])+"`]}")
}

// c14Names extracts the bound names from a saved file.
func c14Names(file string) []string {
	var out []string
	for _, line := range strings.Split(strings.TrimSuffix(file, "\n"), "\n") {
		if strings.HasPrefix(line, "func ") {
			if i := strings.IndexByte(line, '('); i > 5 {
				out = append(out, line[5:i])
			}
			continue
		}
		if i := strings.IndexByte(line, '='); i > 0 {
			out = append(out, line[:i])
		}
	}
	return out
}

func c14Args(arity int, k int) string {
	pool := [][]string{{"1", "2", "3", "4"}, {"2.5", "1", "0", "7"}, {`"a"`, `"b"`, "3", "1"}, {"[1]", "2", "1", "0"}}
	args := make([]string, arity)
	for i := range args {
		args[i] = pool[k%len(pool)][i%4]
	}
	return strings.Join(args, ", ")
}

func (p c14) check(c *fw.Ctx, build []string, maxLen int) (kind, detail string, nBindings int, fileText string) {
	defer func() {
		if r := recover(); r != nil {
			kind, detail = "panic", fmt.Sprint(r)
		}
	}()
	orig := newSession(false)
	orig.s.MaxValueLen = maxLen
	for _, in := range build {
		orig.eval(in, 3*time.Second)
	}
	var buf bytes.Buffer
	n, err := orig.s.SaveGlobals(&buf)
	if err != nil {
		return "save-error", err.Error(), 0, ""
	}
	file := buf.String()
	lines := strings.Count(file, "\n")
	if lines != n || (n > 0 && !strings.HasSuffix(file, "\n")) {
		return "line-count", fmt.Sprintf("SaveGlobals reported %d bindings but wrote %d lines", n, lines), n, file
	}
	names := c14Names(file)
	if len(names) != n {
		return "line-shape", fmt.Sprintf("%d bindings reported but %d lines look like bindings", n, len(names)), n, file
	}
	// over-long values must be skipped, not truncated: every line is complete (parses alone)
	for _, line := range strings.Split(strings.TrimSuffix(file, "\n"), "\n") {
		if line == "" {
			continue
		}
		if r := parseSrc(line, false); !r.accepted() {
			return "line-unparseable", fmt.Sprintf("saved line %q does not parse: %v cont=%v", clip(line), r.errs, r.cont), n, file
		}
	}
	_ = os.Remove(".gr")
	_ = os.Remove("st.gr")
	// nothing longer than the limit is in the file (a function's value is its whole text)
	if maxLen > 0 {
		for _, line := range strings.Split(strings.TrimSuffix(file, "\n"), "\n") {
			val := line
			if !strings.HasPrefix(line, "func ") {
				if i := strings.IndexByte(line, '='); i > 0 {
					val = line[i+1:]
				}
			}
			if len(val) > maxLen {
				return "over-limit-saved", fmt.Sprintf("with a limit of %d a value of %d bytes was saved: %s", maxLen, len(val), clip(line)), n, file
			}
		}
	}
	// was anything left out (too long) or is any saved value a large container?
	skipped := false
	if maxLen > 0 {
		var full bytes.Buffer
		lim := orig.s.MaxValueLen
		orig.s.MaxValueLen = 0
		nAll, _ := orig.s.SaveGlobals(&full)
		orig.s.MaxValueLen = lim
		skipped = nAll != n
	}
	for _, name := range names {
		if o := orig.eval("len("+name+")", time.Second); !o.isErr {
			if l, ok := o.val.(int64); ok && l > 4 {
				if t := orig.eval(name, time.Second); !t.isErr {
					switch t.val.(type) {
					case *gt.Arr, *gt.Map:
						skipped = true
					}
				}
			}
		}
	}
	// three load paths
	loaders := []struct {
		name string
		load func() (*session, string)
	}{
		{"autoload-line-by-line", func() (*session, string) {
			if err := os.WriteFile(".gr", []byte(file), 0o644); err != nil {
				return nil, err.Error()
			}
			ss := newSession(false)
			ss.s.MaxValueLen = maxLen
			if err := repl.AutoLoad(ss.s, repl.Options{AutoLoad: true}); err != nil {
				return ss, "AutoLoad: " + clip(err.Error())
			}
			return ss, ""
		}},
		{"save()-load()", func() (*session, string) {
			o := orig.eval(`save("st")`, 3*time.Second)
			if o.isErr {
				return nil, "save(\"st\") failed: " + outStr(o)
			}
			ss := newSession(false)
			ss.s.MaxValueLen = maxLen
			if o := ss.eval(`load("st")`, 5*time.Second); o.isErr {
				return ss, "load(\"st\") failed: " + outStr(o)
			}
			return ss, ""
		}},
	}
	var allFn []string
	for _, ld := range loaders {
		ss, msg := ld.load()
		if msg != "" {
			return "load-error:" + ld.name, msg, n, file
		}
		var fnNames []string
		for _, name := range names {
			a := orig.eval(name, time.Second)
			b := ss.eval(name, time.Second)
			if a.isErr != b.isErr {
				return "missing:" + ld.name, fmt.Sprintf("global %s: original %s, reloaded %s", name, outStr(a), outStr(b)), n, file
			}
			if a.isErr {
				continue
			}
			if _, isFn := a.val.(*gt.Fn); isFn {
				fnNames = append(fnNames, name)
				continue
			}
			if !gt.Same(a.val, b.val) {
				return "value-differs:" + ld.name, fmt.Sprintf("global %s: original %s, reloaded %s", name, valStr(a.val), valStr(b.val)), n, file
			}
		}
		// what the file does not mention (predefined names) must not have been changed by the session either: every global
		// of the original session reads the same in the reloaded one (checked without a length limit; values too deep or
		// too long to be written are left out by design)
		if maxLen == 0 {
			inFile := map[string]bool{}
			for _, nm := range names {
				inFile[nm] = true
			}
			if g := orig.eval("info.globals", time.Second); !g.isErr {
				if gm, ok := g.val.(*gt.Map); ok {
					for _, kv := range gm.P {
						nm, _ := kv.K.(string)
						if nm == "" || inFile[nm] || strings.HasPrefix(nm, "zz_") {
							continue
						}
						oa, ob := orig.evalObj(nm), ss.evalObj(nm)
						if oa == nil {
							continue
						}
						ta := oa.Inspect()
						if len(ta) > 9000 || strings.Contains(ta, "...") {
							continue
						}
						if ob == nil || ob.Inspect() != ta {
							tb := "<unbound>"
							if ob != nil {
								tb = ob.Inspect()
							}
							return "not-saved:" + ld.name, fmt.Sprintf("global %s is not in the file: original %s, reloaded %s", nm, clip(ta), clip(tb)), n, file
						}
					}
				}
			}
		}
		// second save of the reloaded state is byte-identical (before any function is called)
		var buf2 bytes.Buffer
		if _, err := ss.s.SaveGlobals(&buf2); err != nil {
			return "save-error", err.Error(), n, file
		}
		if buf2.String() != file {
			l1, l2 := strings.Split(file, "\n"), strings.Split(buf2.String(), "\n")
			d := "line counts differ"
			for i := 0; i < len(l1) && i < len(l2); i++ {
				if l1[i] != l2[i] {
					d = fmt.Sprintf("line %d: first save %q, second save %q", i+1, clip(l1[i]), clip(l2[i]))
					break
				}
			}
			return "second-save-differs:" + ld.name, d, n, file
		}
		allFn = fnNames
		continue
	}
	// functions: compared once, after all data checks, on sampled argument tuples; skipped when a value they may
	// use was left out because of the length limit (by design) or when the environment holds large containers whose
	// in-place updates (C06's open finding) depend on storage sharing that a file cannot preserve.
	if !skipped && len(allFn) > 0 {
		ss := newSession(false)
		for _, line := range strings.Split(strings.TrimSuffix(file, "\n"), "\n") {
			ss.eval(line, 2*time.Second)
		}
		// the environment top level functions are defined in: a function value with another one is a closure over the
		// variables of a call that has returned, which text cannot carry (open finding, matched by its own signature)
		orig.eval("func zz_c14_top() {}", time.Second)
		var topEnv *object.Environment
		if f, ok := object.Value(orig.evalObj("zz_c14_top")).(object.Function); ok {
			topEnv = f.Env
		}
		for _, name := range allFn {
			captured := false
			if f, ok := object.Value(orig.evalObj(name)).(object.Function); ok && topEnv != nil && f.Env != topEnv {
				captured = true
			}
			for arity := 0; arity <= 4; arity++ {
				for k := 0; k < 3; k++ {
					call := fmt.Sprintf("%s(%s)", name, c14Args(arity, k))
					x := orig.eval(call, 2*time.Second)
					y := ss.eval(call, 2*time.Second)
					if x.timedOut || y.timedOut {
						continue
					}
					if !sameOutcome(x, y) {
						kind := "function-differs"
						if captured {
							kind = "function-differs:captured-environment"
						}
						return kind, fmt.Sprintf("%s: original %s, reloaded %s", call, outStr(x), outStr(y)), n, file
					}
				}
			}
		}
	}
	return "", "", n, file
}

// autoCycle exercises auto-save followed by auto-load through EvalStringWithOption.
func (p c14) autoCycle(c *fw.Ctx, build []string) (kind, detail string) {
	_ = os.Remove(".gr")
	opts := repl.EvalStringOptions()
	opts.AutoLoad, opts.AutoSave = true, true
	opts.MaxValueLen = 4000
	src := strings.Join(build, "\n")
	if strings.Contains(src, "70000") || strings.Contains(src, "for 9998") {
		opts.MaxValueLen = 0 // no limit: lines longer than a bufio.Scanner's default token size
	}
	_, errs, _ := repl.EvalStringWithOption(context.Background(), opts, src)
	if len(errs) > 0 {
		return "", "" // the environment itself does not evaluate cleanly in one go: not a case
	}
	first, err := os.ReadFile(".gr")
	if err != nil {
		return "", "" // nothing was bound at top level: auto-save has nothing to do by design
	}
	// a second process-like session: auto-load, change nothing but force a save by re-binding one value to itself
	names := c14Names(string(first))
	if len(names) == 0 {
		return "", ""
	}
	second2 := "zz_probe = 1; del(zz_probe)"
	setter, setterWant := false, ""
	for _, st := range c14Setters {
		if strings.Contains("\n"+string(first), "\nfunc "+st.fn+"(") && !setter {
			setter, setterWant = true, st.want
			second2 = st.fn + "()" // the only change of this session is a global changed from inside a function
		}
	}
	retype := strings.Contains(string(first), "\nge=[1,2]\n")
	if retype && !setter {
		// the only changes are re-bindings to values that compare equal but are of another type or sign
		second2 = "ge = [1.0, 2.0]; gzz = -0.0; gmm = {\"k\": 1.0}"
	}
	res, errs, _ := repl.EvalStringWithOption(context.Background(), opts, second2)
	_ = res
	if len(errs) > 0 {
		return "autoload-error", fmt.Sprintf("evaluating after auto-load failed: %v", errs)
	}
	if retype && !setter {
		saved, _ := os.ReadFile(".gr")
		for _, want := range []string{"\nge=[1.0,2.0]\n", "\ngzz=-0.0\n", "\ngmm={\"k\":1.0}\n"} {
			if !strings.Contains(string(saved), want) {
				return "autosave-skipped", fmt.Sprintf("a session that re-bound globals to equal values of another type did not save %q: %s", want, clip(string(saved)))
			}
		}
		return "", ""
	}
	if setter {
		saved, _ := os.ReadFile(".gr")
		if !strings.Contains("\n"+string(saved), setterWant) {
			return "autosave-skipped", fmt.Sprintf("a session whose only change is a global changed from inside a function (%s) did not save %q: %s", second2, setterWant, clip(string(saved)))
		}
		return "", ""
	}
	second, err := os.ReadFile(".gr")
	if err != nil {
		return "autosave-missing", err.Error()
	}
	if !bytes.Equal(first, second) {
		return "autosave-cycle-differs", fmt.Sprintf("file after auto-load + auto-save differs:\nfirst  %q\nsecond %q", clip(string(first)), clip(string(second)))
	}
	return "", ""
}

func (p c14) one(c *fw.Ctx, build []string) {
	c.Eval(1)
	maxLen := []int{0, 4000, 60}[c.Rng.IntN(3)]
	kind, detail, n, file := p.check(c, build, maxLen)
	if n >= 3 {
		c.ShapeH(fnv64(file))
	}
	if kind == "" {
		kind, detail = p.autoCycle(c, build)
	}
	if kind != "" {
		small := shrinkInputs(build, func(in []string) bool {
			k, _, _, _ := p.check(c, in, maxLen)
			if k == "" {
				k, _ = p.autoCycle(c, in)
			}
			return k == kind
		})
		if k2, d2, _, _ := p.check(c, small, maxLen); k2 == kind {
			detail = d2
		}
		c.Violate(strings.SplitN(kind, ":", 2)[0], "saveload:"+kind, c14Case{Build: small}, detail)
	}
}

func (p c14) RunBatch(c *fw.Ctx) {
	InitGrol(&extensions.Config{HasLoad: true, HasSave: true, UnrestrictedIOs: false})
	dir := Scratch("c14")
	defer os.RemoveAll(dir)
	_ = eval.DefaultMaxDepth
	// the hostile fixed set, alone and all together (batch 0), then random subsets mixed with generated programs
	if c.Batch == 1%c.NBatches {
		// values nested up to and beyond what the parser reads back (they are saved only if they can be reloaded)
		deep := []string{`dv = [1]; for 9998 {dv = [dv]}; dw = [1]; for 4899 {dw = [dw]}; dx = {}; for 4898 {dx = {"k": dx}}; dy = 1; for 4890 {dy = {dy: [1]}}; dz = [1]; for 4950 {dz = [dz]}`}
		c.Begin(c14Case{Build: deep})
		p.one(c, deep)
	}
	if c.Batch == 0 {
		for _, h := range c14Hostile {
			c.Begin(c14Case{Build: []string{h}})
			p.one(c, []string{h})
		}
		c.Begin(c14Case{Build: c14Hostile})
		p.one(c, c14Hostile)
	}
	n := c.Pick(250, 8000)
	for i := 0; i < n; i++ {
		g := gt.NewGen(c.Rng)
		g.NoClosure = true
		stmts := g.Program(2+c.Rng.IntN(12), 1+c.Rng.IntN(3))
		if !refSessionUsable(stmts) {
			continue // non-terminating, or in the region of the aliasing finding (C06) where values may even become cyclic
		}
		rr := &gt.Renderer{}
		var build []string
		for _, s := range stmts {
			build = append(build, rr.Stmt(s, ""))
		}
		for k := c.Rng.IntN(4); k > 0; k-- {
			build = append(build, c14Hostile[c.Rng.IntN(len(c14Hostile))])
		}
		sort.SliceStable(build, func(a, b int) bool { return false })
		c.Begin(c14Case{Build: build})
		p.one(c, build)
		if i == 0 {
			c.Sample(c14Case{Build: build})
		}
	}
	// the globals the shipped example and test programs leave behind (real function shapes: nested lambdas, self
	// recursion, maps of functions, comments inside bodies)
	for fi, src := range corpusPrograms() {
		if fi%c.NBatches != c.Batch {
			continue
		}
		c.Begin(c14Case{Build: []string{src}})
		p.one(c, []string{src})
		c.Count("corpus_environments", 1)
	}
}

func (p c14) ReplayCase(c *fw.Ctx, input json.RawMessage) {
	InitGrol(&extensions.Config{HasLoad: true, HasSave: true, UnrestrictedIOs: false})
	dir := Scratch("c14r")
	defer os.RemoveAll(dir)
	var cs c14Case
	if err := json.Unmarshal(input, &cs); err != nil || len(cs.Build) == 0 {
		return
	}
	c.Eval(1)
	for _, ml := range []int{0, 60} {
		kind, detail, _, _ := p.check(c, cs.Build, ml)
		if kind == "" {
			kind, detail = p.autoCycle(c, cs.Build)
		}
		if kind != "" {
			c.Violate(strings.SplitN(kind, ":", 2)[0], "saveload:"+kind, cs, detail)
			return
		}
	}
}
