package props

import (
	"encoding/json"
	"fmt"
	"os"
	"path/filepath"
	"strings"
	"unicode/utf8"

	"grol.io/grol/lexer"
	"grol.io/grol/token"
	"verif/fw"
)

// C16: the lexer is lossless — tokens tile the input. Tiling monitor over all short inputs.

type c16 struct{ fw.Base }

func init() { fw.Register(c16{}) }

func (c16) ID() string { return "C16" }
func (c16) Rule() string {
	return "every byte string of length <=4 (thorough: <=5) over a 32-symbol alphabet (0 1 9 a e E x b f _ . + - \" ` \\ / * = < ! & | : space newline NUL 0xC3 ( ) CR) in file and line mode, " +
		"every literal kind (both strings, both comments, identifier, integer, float) at 26 lengths from 1 to 70001 bytes lexed three times, random strings of length 5..60 over all bytes, the shipped .gr corpus and byte mutations of it; for each input the monitor calls NextToken until the end marker, " +
		"recomputes every token's span from Lexer.Pos() and checks tiling, literal=bytes, string/comment spans against its own scanner, stickiness of the end marker, token count <= n+1, " +
		"interning and keyword classification. non-trivial = input with >=1 non-end token; distinct = distinct (input, mode)."
}
func (c16) Exhaustive(string) bool { return true }
func (c16) NumBatches(tier string) int {
	if tier == "thorough" {
		return 64
	}
	return 16
}
func (c16) Assumptions() []string {
	return []string{"span start = first byte after the previous token's end that is not space/tab/CR/LF; span end = Lexer.Pos() after NextToken",
		"string escapes \\x \\u \\U take up to 2/4/8 hex digits and never anything else (the closing quote is not a digit), any other escaped byte stands for itself",
		"an unterminated string or block comment may only be followed by the end marker"}
}

var c16Alphabet = []byte{'0', '1', '9', 'a', 'e', 'E', 'x', 'b', 'f', '_', '.', '+', '-', '"', '`', '\\', '/', '*', '=', '<', '!', '&', '|', ':', ' ', '\n', 0, 0xC3, '(', ')', '\r', '\v'}

func isWS(b byte) bool { return b == ' ' || b == '\t' || b == '\n' || b == '\r' }

func hexVal(ch byte) byte {
	switch {
	case '0' <= ch && ch <= '9':
		return ch - '0'
	case 'a' <= ch && ch <= 'f':
		return ch - 'a' + 10
	case 'A' <= ch && ch <= 'F':
		return ch - 'A' + 10
	}
	return 0
}

// refString scans a string literal starting at in[0] (a quote or backquote). It returns the
// length of the literal including both delimiters and its unescaped value; ok=false if unterminated.
func refString(in []byte) (n int, val string, ok bool) {
	sep := in[0]
	var out []byte
	i := 1
	at := func(k int) byte { // bytes past the end read as 0, like the lexer's sentinel
		if k < len(in) {
			return in[k]
		}
		return 0
	}
	for {
		if i >= len(in) {
			return 0, "", false
		}
		ch := in[i]
		i++
		if sep == '"' && ch == '\\' {
			e := at(i)
			i++
			switch e {
			case 'r':
				out = append(out, '\r')
			case 'n':
				out = append(out, '\n')
			case 't':
				out = append(out, '\t')
			case 'a':
				out = append(out, '\a')
			case 'b':
				out = append(out, '\b')
			case 'f':
				out = append(out, '\f')
			case 'v':
				out = append(out, '\v')
			case 'x', 'u', 'U':
				// up to 2 / 4 / 8 hex digits belong to the escape; anything else (the closing quote!) is not part of it
				width := map[byte]int{'x': 2, 'u': 4, 'U': 8}[e]
				r := rune(0)
				for k := 0; k < width && isHex(at(i)); k++ {
					r = r<<4 | rune(hexVal(at(i)))
					i++
				}
				if e == 'x' {
					out = append(out, byte(r))
				} else {
					out = utf8.AppendRune(out, r)
				}
			default:
				if i > len(in) { // the backslash was the last byte
					return 0, "", false
				}
				out = append(out, e)
			}
			continue
		}
		if ch == sep {
			return i, string(out), true
		}
		out = append(out, ch)
	}
}

func isHex(c byte) bool {
	return c >= '0' && c <= '9' || c >= 'a' && c <= 'f' || c >= 'A' && c <= 'F'
}

var c16Keywords map[string]bool

func c16Init() {
	if c16Keywords != nil {
		return
	}
	c16Keywords = map[string]bool{}
	info := token.Info()
	for k := range info.Keywords {
		c16Keywords[k] = true
	}
	for k := range info.Builtins {
		c16Keywords[k] = true
	}
}

type tokKey struct {
	t token.Type
	l string
}

var c16Interned = map[tokKey]*token.Token{}

// c16Check lexes one input and returns (kind, detail, ntokens) of the first violation.
func c16Check(in []byte, lineMode bool) (kind, detail string, ntok int) {
	defer func() {
		if r := recover(); r != nil {
			kind, detail = "panic", fmt.Sprint(r)
		}
	}()
	var l *lexer.Lexer
	endT := token.EOF
	if lineMode {
		l = lexer.NewLineMode(string(in))
		endT = token.EOL
	} else {
		l = lexer.NewBytes(in)
	}
	n := len(in)
	prevEnd := 0
	for {
		if ntok > n+1 {
			return "too-many-tokens", fmt.Sprintf("%d tokens before the end marker for %d bytes", ntok, n), ntok
		}
		before := l.Pos()
		tok := l.NextToken()
		end := l.Pos()
		if tok == nil {
			return "nil-token", "NextToken returned nil", ntok
		}
		if before < prevEnd {
			return "pos-backwards", fmt.Sprintf("Pos() %d before the call is behind previous end %d", before, prevEnd), ntok
		}
		start := prevEnd
		for start < n && isWS(in[start]) {
			start++
		}
		tt := tok.Type()
		if tt == token.EOF || tt == token.EOL {
			if tt != endT {
				return "wrong-end-marker", fmt.Sprintf("end marker %s in mode line=%v", tt, lineMode), ntok
			}
			if start < n {
				// only an unterminated string / block comment may be swallowed by the end marker
				rest := in[start:]
				okSwallow := false
				if rest[0] == '"' || rest[0] == '`' {
					_, _, terminated := refString(rest)
					okSwallow = !terminated
				} else if len(rest) >= 2 && rest[0] == '/' && rest[1] == '*' {
					okSwallow = !strings.Contains(string(rest[2:]), "*/")
				}
				if !okSwallow {
					return "early-end-marker", fmt.Sprintf("end marker returned at byte %d of %d, unconsumed %q", start, n, tail(string(rest), 40)), ntok
				}
			}
			// sticky
			for k := 0; k < 3; k++ {
				t2 := l.NextToken()
				if t2 == nil || t2.Type() != endT {
					return "end-not-sticky", fmt.Sprintf("call %d after the end marker returned %s", k+1, dbg(t2)), ntok
				}
			}
			return "", "", ntok
		}
		ntok++
		if end <= start || end > n {
			return "bad-span", fmt.Sprintf("token %s span [%d,%d) of %d bytes", dbg(tok), start, end, n), ntok
		}
		span := string(in[start:end])
		lit := tok.Literal()
		// interning
		k := tokKey{tt, lit}
		if p, ok := c16Interned[k]; ok {
			if p != tok {
				return "not-interned", fmt.Sprintf("two different pointers for token %s", dbg(tok)), ntok
			}
		} else {
			if len(c16Interned) > 200000 {
				c16Interned = map[tokKey]*token.Token{}
			}
			c16Interned[k] = tok
		}
		switch tt {
		case token.STRING:
			m, val, ok := refString(in[start:])
			if !ok || m != end-start {
				return "string-span", fmt.Sprintf("string token spans %q, reference scanner: len=%d terminated=%v", span, m, ok), ntok
			}
			if val != lit {
				return "string-literal", fmt.Sprintf("string %q has literal %q, reference unescape %q", span, lit, val), ntok
			}
		case token.LINECOMMENT:
			e := start
			for e < n && in[e] != '\n' {
				e++
			}
			if !strings.HasPrefix(span, "//") || end != e {
				return "comment-span", fmt.Sprintf("line comment spans [%d,%d) %q, expected up to %d", start, end, span, e), ntok
			}
			// the token's text is the bytes it spans, less trailing blanks (space, tab, CR: what the lexer skips as whitespace)
			if lit != strings.TrimRight(span, " \t\r") {
				return "comment-literal", fmt.Sprintf("line comment %q has literal %q", span, lit), ntok
			}
		case token.BLOCKCOMMENT:
			want := ""
			if strings.HasPrefix(string(in[start:]), "/*") {
				if i := strings.Index(string(in[start+2:]), "*/"); i >= 0 {
					want = string(in[start : start+2+i+2])
				} else {
					want = string(in[start:])
				}
			}
			if span != want || lit != span {
				return "comment-span", fmt.Sprintf("block comment spans %q literal %q, expected %q", span, lit, want), ntok
			}
		case token.ILLEGAL:
			if end-start != 1 {
				return "illegal-span", fmt.Sprintf("ILLEGAL token spans %q", span), ntok
			}
		default:
			if lit != span {
				return "literal-mismatch", fmt.Sprintf("token %s spans bytes %q", dbg(tok), span), ntok
			}
			if tt == token.IDENT && c16Keywords[span] {
				return "keyword-as-ident", fmt.Sprintf("keyword %q delivered as IDENT", span), ntok
			}
		}
		prevEnd = end
	}
}

func dbg(t *token.Token) string {
	if t == nil {
		return "<nil>"
	}
	return t.DebugString()
}

func tail(s string, n int) string {
	if len(s) <= n {
		return s
	}
	return s[:n] + "…"
}

type c16Case struct {
	In   string `json:"input"` // Go-quoted
	Line bool   `json:"line_mode"`
}

func (p c16) one(c *fw.Ctx, in []byte, lineMode bool) {
	c.Eval(1)
	kind, detail, ntok := c16Check(in, lineMode)
	if ntok > 0 {
		c.ShapeH(hashBytes(in, lineMode))
	}
	if kind != "" {
		c.Violate(kind, "lex:"+kind, c16Case{In: fw.Q(string(in)), Line: lineMode}, detail)
	}
}

func hashBytes(b []byte, flag bool) uint64 {
	h := uint64(14695981039346656037)
	for _, x := range b {
		h ^= uint64(x)
		h *= 1099511628211
	}
	if flag {
		h ^= 0x9e3779b97f4a7c15
		h *= 1099511628211
	}
	return h
}

// RepoRoot is the repository under test.
func RepoRoot() string {
	if r := os.Getenv("VERIF_REPO"); r != "" {
		return r
	}
	return "/repo"
}

var corpusCache [][]byte

// Corpus returns the shipped .gr files.
func Corpus() [][]byte {
	if corpusCache != nil {
		return corpusCache
	}
	for _, dir := range []string{"examples", "tests"} {
		files, _ := filepath.Glob(filepath.Join(RepoRoot(), dir, "*.gr"))
		for _, f := range files {
			if b, err := os.ReadFile(f); err == nil {
				corpusCache = append(corpusCache, b)
			}
		}
	}
	return corpusCache
}

func (p c16) RunBatch(c *fw.Ctx) {
	InitGrol(nil)
	c16Init()
	maxLen := c.Pick(4, 5)
	A := c16Alphabet
	// exhaustive part, partitioned by index modulo number of batches
	idx := 0
	buf := make([]byte, 0, 8)
	var rec func(depth int)
	rec = func(depth int) {
		if idx%c.NBatches == c.Batch {
			p.one(c, buf, false)
			p.one(c, buf, true)
			c.Count("exhaustive_inputs", 1)
		}
		idx++
		if depth == maxLen {
			return
		}
		for _, a := range A {
			buf = append(buf, a)
			rec(depth + 1)
			buf = buf[:len(buf)-1]
		}
	}
	c.Begin(map[string]any{"phase": "exhaustive", "batch": c.Batch})
	rec(0)
	c.Sample(map[string]any{"input": fw.Q("1e+"), "mode": "file", "note": "one of the enumerated inputs"})
	// long literals, each lexed twice in one input and once more by another lexer: spans and sharing don't depend on length
	c.Begin(map[string]any{"phase": "long-literals", "batch": c.Batch})
	for li, n := range []int{1, 15, 16, 17, 63, 64, 65, 127, 128, 129, 255, 256, 257, 511, 512, 513, 1023, 1024, 1025, 4095, 4096, 4097, 65535, 65536, 65537, 70001} {
		if li%16 != c.Batch%16 {
			continue
		}
		body := strings.Repeat("k", n)
		for _, lit := range []string{"\"" + body + "\"", "`" + body + "`", "/*" + body + "*/", "//" + body + "\n", "x" + body, "1" + strings.Repeat("0", n), "1." + strings.Repeat("5", n)} {
			in := []byte(lit + " " + lit + "\n" + lit)
			for _, lm := range []bool{false, true} {
				cs := c16Case{In: fw.Q(string(in)), Line: lm}
				c.Begin(cs)
				p.one(c, in, lm)
				p.one(c, []byte(lit), lm)
				c.Count("long_literal_inputs", 1)
			}
		}
	}
	// very many distinct literals of each kind lexed by one process (one input each): every one still reads as its own bytes
	// (a table of shared tokens keyed by anything shorter than the literal starts confusing them at this scale)
	{
		nLit := c.Pick(300000, 1200000)
		var ids, nums, strs strings.Builder
		for k := 0; k < nLit; k++ {
			v := uint64(k)*2654435761 + uint64(c.Batch)*7919 + uint64(c.Seed)*104729
			// identifiers: letters in base 26, numbers: decimal, strings: hex
			var w [12]byte
			n := 0
			for x := v; n < 7; n++ {
				w[n] = 'a' + byte(x%26)
				x /= 26
			}
			ids.Write(w[:n])
			ids.WriteByte(' ')
			if k%3 == 0 {
				fmt.Fprintf(&nums, "%d ", v%100000000000)
				fmt.Fprintf(&strs, "\"s%x\" ", v)
			}
		}
		for _, in := range []string{ids.String(), nums.String(), strs.String()} {
			c.Begin(map[string]any{"phase": "many-distinct-literals", "batch": c.Batch, "bytes": len(in)})
			p.one(c, []byte(in), false)
			c.Count("many_literal_inputs", 1)
		}
	}
	// random longer inputs
	nRand := c.Pick(15000, 100000)
	for i := 0; i < nRand; i++ {
		n := 5 + c.Rng.IntN(56)
		b := make([]byte, n)
		for j := range b {
			switch c.Rng.IntN(10) {
			case 0:
				b[j] = byte(c.Rng.IntN(256))
			default:
				b[j] = A[c.Rng.IntN(len(A))]
			}
		}
		cs := c16Case{In: fw.Q(string(b)), Line: i%2 == 0}
		c.Begin(cs)
		p.one(c, b, cs.Line)
		c.Count("random_inputs", 1)
		if i == 0 {
			c.Sample(cs)
		}
	}
	// corpus and byte mutations of it
	corpus := Corpus()
	nMut := c.Pick(40, 600)
	for fi, src := range corpus {
		if fi%c.NBatches != c.Batch {
			continue
		}
		p.one(c, src, false)
		p.one(c, src, true)
		c.Count("corpus_inputs", 1)
		for m := 0; m < nMut; m++ {
			b := append([]byte{}, src...)
			for k := 1 + c.Rng.IntN(3); k > 0 && len(b) > 0; k-- {
				pos := c.Rng.IntN(len(b))
				switch c.Rng.IntN(3) {
				case 0:
					b[pos] = A[c.Rng.IntN(len(A))]
				case 1:
					b = append(b[:pos], b[pos+1:]...)
				default:
					b = append(b[:pos], append([]byte{A[c.Rng.IntN(len(A))]}, b[pos:]...)...)
				}
			}
			cs := c16Case{In: fw.Q(string(b)), Line: m%2 == 0}
			c.Begin(cs)
			p.one(c, b, cs.Line)
			c.Count("corpus_mutations", 1)
		}
	}
}

func (p c16) ReplayCase(c *fw.Ctx, input json.RawMessage) {
	InitGrol(nil)
	c16Init()
	var cs c16Case
	if err := json.Unmarshal(input, &cs); err != nil {
		return
	}
	p.one(c, []byte(fw.UQ(cs.In)), cs.Line)
}
