package props

import (
	"bytes"
	"context"
	"crypto/sha256"
	"encoding/json"
	"fmt"
	"io/fs"
	"os"
	"os/exec"
	"path/filepath"
	"sort"
	"strings"
	"time"

	"grol.io/grol/extensions"
	"verif/fw"
)

// C17: restricted IO confines file access to plain .gr names in the current directory.

type c17 struct{ fw.Base }

func init() {
	fw.Register(c17{})
	fw.SubCommands["c17child"] = c17Child
}

func (c17) ID() string { return "C17" }
func (c17) Rule() string {
	return "one child process per IO configuration (unrestricted, restricted, empty-only, each with load/save enabled or disabled; the configuration is fixed per process), with its working directory inside a scratch tree seeded with canary files " +
		"(../outside.gr, sub/inner.gr, a.gr, .gr, x.txt, an absolute-path target), each holding a unique marker binding. EVERY name of length <=3 (thorough: <=5) over the symbols {a Z 1 _ . / \\ NUL space ~ 0xC3, the characters U+2030 U+2661 U+00E9, and .gr as one symbol}, with and without a final .gr, is passed to save() then load() and in the reverse order, twice; so are names whose valid prefix is 15..250 bytes long followed by each forbidden continuation, with sub-directories of those names present. " +
		"After every request that was not rejected — and after every 500 rejected ones — the whole tree is re-scanned (names, sizes, content hashes) and compared with the allowed set computed by the monitor's own predicate (letters/digits/underscore + .gr in the cwd; only ./.gr in empty-only mode; ./grol.png); " +
		"a load that makes a canary marker from outside the allowed set visible is a read violation; acceptance must be the same for save and load, for both attempts and both orders; exec/run must not resolve in restricted modes; image.save with hostile image names must only write ./grol.png. " +
		"Thorough additionally runs a sample under strace and checks every path opened for writing. non-trivial = request that was accepted; distinct = distinct (configuration, name)."
}
func (c17) Exhaustive(string) bool     { return true }
func (c17) NumBatches(string) int      { return 6 }
func (c17) CaseTimeout() time.Duration { return 45 * time.Minute } // one case is one child enumerating every name (thorough: 1.6 million requests)
func (c17) Assumptions() []string {
	return []string{"the allowed-set predicate is the monitor's own reading of the property, not the sanitiser under test", "the unrestricted configuration is only a control run (no confinement is promised there)"}
}

type c17Case struct {
	Config string `json:"config"`
	Name   string `json:"name,omitempty"` // Go-quoted
	Len    int    `json:"max_len,omitempty"`
}

// "\u2030" (low byte of the code point is '0'), "\u2661" ('a') and "\u00e9" are well formed multi-byte characters
var c17Alphabet = []string{"a", "Z", "1", "_", ".", "/", "\\", "\x00", " ", "~", "\xc3", ".gr", "\u2030", "\u2661", "\u00e9"}

type c17Cfg struct {
	name                     string
	restricted, empty, hasIO bool
}

var c17Configs = []c17Cfg{
	{"restricted", true, false, true},
	{"emptyonly", true, true, true},
	{"restricted-noloadsave", true, false, false},
	{"emptyonly-noloadsave", true, true, false},
	{"unrestricted", false, false, true},
	{"unrestricted-emptyonly", false, true, true},
}

func c17Allowed(cfg c17Cfg, name string) bool {
	if !cfg.hasIO {
		return false
	}
	if cfg.empty {
		return name == ""
	}
	if !cfg.restricted {
		return true
	}
	base := strings.TrimSuffix(name, ".gr")
	for i := 0; i < len(base); i++ {
		ch := base[i]
		if !(ch == '_' || (ch >= '0' && ch <= '9') || (ch >= 'a' && ch <= 'z') || (ch >= 'A' && ch <= 'Z')) {
			return false
		}
	}
	return true
}

func grolStr(s string) string {
	var sb strings.Builder
	sb.WriteByte('"')
	for i := 0; i < len(s); i++ {
		fmt.Fprintf(&sb, `\x%02x`, s[i])
	}
	sb.WriteByte('"')
	return sb.String()
}

type treeSnap map[string]string // relative path -> size:hash

func snapTree(root string) treeSnap {
	t := treeSnap{}
	_ = filepath.WalkDir(root, func(path string, d fs.DirEntry, err error) error {
		if err != nil {
			return nil
		}
		rel, _ := filepath.Rel(root, path)
		if d.IsDir() {
			t[rel+"/"] = "dir"
			return nil
		}
		b, err := os.ReadFile(path)
		if err != nil {
			t[rel] = "unreadable"
			return nil
		}
		t[rel] = fmt.Sprintf("%d:%x", len(b), sha256.Sum256(b))
		return nil
	})
	return t
}

// c17Child: verifd c17child <config> <maxlen> <root> [single-name-quoted]
func c17Child(args []string) int {
	if len(args) < 3 {
		return 3
	}
	var cfg c17Cfg
	for _, c := range c17Configs {
		if c.name == args[0] {
			cfg = c
		}
	}
	maxLen := 3
	fmt.Sscan(args[1], &maxLen)
	root := args[2]
	cwd := filepath.Join(root, "work")
	if err := os.Chdir(cwd); err != nil {
		fmt.Println("C17VIOLATION harness cannot chdir", err)
		return 3
	}
	initOnce.Do(func() {})
	InitGrolWith(&extensions.Config{HasLoad: cfg.hasIO, HasSave: cfg.hasIO, UnrestrictedIOs: !cfg.restricted, LoadSaveEmptyOnly: cfg.empty})
	reports := 0
	report := func(kind, name, detail string) {
		jb, _ := json.Marshal(map[string]string{"kind": kind, "name": fw.Q(name), "detail": detail})
		fmt.Println("C17VIOLATION " + string(jb))
		if reports++; reports >= 40 {
			// enough to decide (a sanitiser that lets thousands of names through makes every later step slower and slower)
			fmt.Println("C17END stopped after 40 reports")
			os.Exit(0)
		}
	}
	ss := newSession(false)
	// like the command line does for `grol ../scripts/run.gr`: the program is a script located outside the working directory
	ss.s.CurrentFile = filepath.Join("..", "scripts", "run.gr")
	// exec / run must not exist when restricted
	for _, fn := range []string{"exec", "run"} {
		o := ss.eval(fn, time.Second)
		if cfg.restricted && !o.isErr {
			report("shell-function-present", fn, fn+" resolves in a restricted configuration")
		}
	}
	if !cfg.hasIO {
		for _, fn := range []string{"save", "load"} {
			if o := ss.eval(fn, time.Second); !o.isErr {
				report("loadsave-present", fn, fn+" resolves although load/save are disabled")
			}
		}
	}
	base := snapTree(root)
	allowedNew := func(rel string) bool { // may this path be created/modified by grol in this configuration
		if !strings.HasPrefix(rel, "work/") {
			return false
		}
		f := strings.TrimPrefix(rel, "work/")
		if strings.ContainsAny(f, "/") {
			return false
		}
		if f == "grol.png" {
			return true
		}
		if !strings.HasSuffix(f, ".gr") {
			return false
		}
		return c17Allowed(cfg, f) || c17Allowed(cfg, strings.TrimSuffix(f, ".gr"))
	}
	checkTree := func(name, why string) {
		now := snapTree(root)
		for pth, sig := range now {
			if old, ok := base[pth]; ok && old == sig {
				continue
			}
			if cfg.restricted && !allowedNew(pth) {
				report("fs-effect", name, fmt.Sprintf("%s: %s was created or modified (%s)", why, pth, sig))
			}
			base[pth] = sig
		}
		for pth := range base {
			if _, ok := now[pth]; !ok {
				report("fs-effect", name, fmt.Sprintf("%s: %s was removed", why, pth))
				delete(base, pth)
			}
		}
	}
	markers := []string{"marker_outside", "marker_inner", "marker_xtxt", "marker_abs", "marker_scripts", "marker_noext", "marker_grgr"}
	accepted, rejected, sinceScan := 0, 0, 0
	decision := map[string]bool{}
	try := func(name, op string) {
		src := op + "(" + grolStr(name) + ")"
		o := ss.eval(src, 5*time.Second)
		rejectedBySanitizer := o.isErr && (strings.Contains(o.errMsg, "invalid character in filename") || strings.Contains(o.errMsg, "empty only mode") || strings.Contains(o.errMsg, "identifier not found"))
		acc := !rejectedBySanitizer
		key := name
		if prev, ok := decision[key]; ok && prev != acc {
			report("acceptance-not-a-function-of-the-name", name, fmt.Sprintf("%s: accepted=%v now, %v before", src, acc, prev))
		}
		decision[key] = acc
		if cfg.restricted && acc != c17Allowed(cfg, name) && cfg.hasIO {
			report("acceptance-differs-from-property", name, fmt.Sprintf("%s: accepted=%v, the property allows=%v (%s)", src, acc, c17Allowed(cfg, name), outStr(o)))
		}
		if acc {
			accepted++
			checkTree(name, src)
			if op == "load" && cfg.restricted {
				for _, m := range markers {
					if r := ss.eval(m, time.Second); !r.isErr {
						report("read-outside", name, fmt.Sprintf("%s made %s visible: a file outside the allowed set was read", src, m))
						ss.eval("del("+m+")", time.Second)
					}
				}
			}
		} else {
			rejected++
			sinceScan++
			if sinceScan >= 500 {
				sinceScan = 0
				checkTree(name, "after 500 rejected requests ending with "+src)
			}
		}
	}
	var names []string
	if len(args) >= 4 {
		names = []string{fw.UQ(args[3])}
	} else {
		var rec func(cur string, depth int)
		rec = func(cur string, depth int) {
			names = append(names, cur, cur+".gr")
			if depth == maxLen {
				return
			}
			for _, a := range c17Alphabet {
				rec(cur+a, depth+1)
			}
		}
		rec("", 0)
		names = append(names, "../outside", "../outside.gr", "sub/inner", "sub/inner.gr", "x.txt", "x.txt.gr", filepath.Join(root, "abs"), filepath.Join(root, "abs.gr"), "a.gr.gr", ".gr.gr", "..gr", "a.gr/", "a.gr\x00.txt", strings.Repeat("a", 300))
		// long names: validation does not depend on the length of the valid prefix (existing long-named sub-directories included)
		for _, n := range []int{15, 16, 17, 31, 32, 33, 63, 64, 65, 127, 128, 129, 130, 200, 250} {
			pre := strings.Repeat("a", n)
			for _, suf := range []string{"", "~", "..", ".", "/", "/x", "\x00", " ", "/../../outside", "/../outside", "/../../abs", "/../sub/inner", ".gr~", "\\", "\u00e9"} {
				names = append(names, pre+suf, pre+suf+".gr")
			}
		}
	}
	fmt.Println("C17BEGIN")
	// before anything is saved: loading a name whose .gr file does not exist must not fall back to another spelling
	// (Z, 1, _ and 1.gr.gr exist in the working directory, Z.gr, 1.gr and _.gr do not yet)
	for _, n := range names {
		if len(n) <= 8 {
			try(n, "load")
		}
	}
	for pass := 0; pass < 2; pass++ {
		for _, n := range names {
			if pass == 0 {
				try(n, "save")
				try(n, "load")
			} else {
				try(n, "load")
				try(n, "save")
			}
		}
	}
	// image.save with hostile image names only ever writes ./grol.png
	for _, n := range []string{"../x", "/tmp/verif_c17_img", "a/b", "grol", "..", ""} {
		ss.eval("image.new("+grolStr(n)+", 2, 2)", time.Second)
		ss.eval("image.save("+grolStr(n)+")", time.Second)
		checkTree(n, "image.save("+grolStr(n)+")")
	}
	checkTree("", "final scan")
	fmt.Println("C17END")
	fmt.Printf("C17STATS accepted=%d rejected=%d names=%d\n", accepted, rejected, len(names))
	return 0
}

func c17Seed(root string) {
	_ = os.MkdirAll(filepath.Join(root, "work", "sub"), 0o755)
	for _, n := range []int{15, 16, 17, 31, 32, 33, 63, 64, 65, 127, 128, 129, 130, 200, 250} {
		_ = os.MkdirAll(filepath.Join(root, "work", strings.Repeat("a", n)), 0o755)
	}
	_ = os.WriteFile(filepath.Join(root, "outside.gr"), []byte("marker_outside=1\n"), 0o644)
	_ = os.WriteFile(filepath.Join(root, "abs.gr"), []byte("marker_abs=1\n"), 0o644)
	_ = os.WriteFile(filepath.Join(root, "work", "sub", "inner.gr"), []byte("marker_inner=1\n"), 0o644)
	_ = os.WriteFile(filepath.Join(root, "work", "a.gr"), []byte("marker_a=1\n"), 0o644)
	_ = os.WriteFile(filepath.Join(root, "work", ".gr"), []byte("marker_dotgr=1\n"), 0o644)
	_ = os.WriteFile(filepath.Join(root, "work", "x.txt"), []byte("marker_xtxt=1\n"), 0o644)
	_ = os.WriteFile(filepath.Join(root, "work", "x.txt.gr"), []byte("marker_xtxt=1\n"), 0o644)
	for _, f := range []string{"Z", "1", "_", "ZZ", "a1"} {
		_ = os.WriteFile(filepath.Join(root, "work", f), []byte("marker_noext=1\n"), 0o644)
	}
	for _, f := range []string{"1.gr.gr", "Z.gr.gr", "_1.gr.gr"} {
		_ = os.WriteFile(filepath.Join(root, "work", f), []byte("marker_grgr=1\n"), 0o644)
	}
	// the directory of the "script being run" (State.CurrentFile points into it): same names as in the working directory
	_ = os.MkdirAll(filepath.Join(root, "scripts"), 0o755)
	for _, f := range []string{"a.gr", ".gr", "Z.gr", "1.gr", "_.gr", "aa.gr", "run.gr"} {
		_ = os.WriteFile(filepath.Join(root, "scripts", f), []byte("marker_scripts=1\n"), 0o644)
	}
}

func (p c17) runConfig(c *fw.Ctx, cfg c17Cfg, maxLen int, single string, strace bool) {
	base := Scratch("c17")
	defer os.RemoveAll(base)
	root := filepath.Join(base, "root")
	c17Seed(root)
	exe, _ := os.Executable()
	args := []string{"c17child", cfg.name, fmt.Sprint(maxLen), root}
	if single != "" {
		args = append(args, single)
	}
	ctx, cancel := context.WithTimeout(context.Background(), 20*time.Minute)
	defer cancel()
	var cmd *exec.Cmd
	straceOut := filepath.Join(base, "strace.out")
	if strace {
		cmd = exec.CommandContext(ctx, "strace", append([]string{"-f", "-qq", "-e", "trace=openat,open,creat,rename,renameat,renameat2,unlink,unlinkat,mkdir,mkdirat,execve", "-o", straceOut, exe}, args...)...)
	} else {
		cmd = exec.CommandContext(ctx, exe, args...)
	}
	var out bytes.Buffer
	cmd.Stdout = &out
	cmd.Stderr = &out
	err := cmd.Run()
	text := out.String()
	cs := c17Case{Config: cfg.name, Len: maxLen}
	if err != nil || !strings.Contains(text, "C17END") {
		c.Violate("child-failed", "child-failed:"+cfg.name, cs, fmt.Sprintf("child did not finish (%v): %s", err, clipTail(text, 500)))
		return
	}
	for _, line := range strings.Split(text, "\n") {
		if strings.HasPrefix(line, "C17VIOLATION ") {
			var v map[string]string
			_ = json.Unmarshal([]byte(strings.TrimPrefix(line, "C17VIOLATION ")), &v)
			c.Violate(v["kind"], "io:"+v["kind"]+":"+cfg.name, c17Case{Config: cfg.name, Name: v["name"], Len: maxLen}, v["detail"])
		}
		if strings.HasPrefix(line, "C17STATS ") {
			var a, r, n int
			fmt.Sscanf(line, "C17STATS accepted=%d rejected=%d names=%d", &a, &r, &n)
			c.Eval(n * 4)
			c.Count("requests_accepted", int64(a))
			c.Count("requests_rejected", int64(r))
			for i := 0; i < a && i < 100000; i++ {
				c.ShapeH(fnv64(fmt.Sprintf("%s/%d", cfg.name, i)))
			}
		}
	}
	if strace {
		p.checkStrace(c, cfg, root, straceOut, cs)
	}
}

// checkStrace: every path opened for writing/creating (or renamed/unlinked/executed) after the child changed into
// its working directory must be inside the allowed set.
func (p c17) checkStrace(c *fw.Ctx, cfg c17Cfg, root, file string, cs c17Case) {
	b, err := os.ReadFile(file)
	if err != nil {
		c.Count("strace_unavailable", 1)
		return
	}
	work := filepath.Join(root, "work")
	n := 0
	for _, line := range strings.Split(string(b), "\n") {
		write := strings.Contains(line, "O_WRONLY") || strings.Contains(line, "O_RDWR") || strings.Contains(line, "O_CREAT") ||
			strings.Contains(line, "rename") || strings.Contains(line, "unlink") || strings.Contains(line, "mkdir") || strings.Contains(line, "creat(")
		if !write || strings.Contains(line, "= -1 ") {
			continue
		}
		i := strings.IndexByte(line, '"')
		j := strings.IndexByte(line[i+1:], '"')
		if i < 0 || j < 0 {
			continue
		}
		pth := line[i+1 : i+1+j]
		if strings.HasPrefix(pth, "/proc") || strings.HasPrefix(pth, "/dev") || strings.HasPrefix(pth, "/sys") {
			continue
		}
		if !filepath.IsAbs(pth) {
			pth = filepath.Join(work, pth)
		}
		n++
		if !cfg.restricted {
			continue
		}
		rel, _ := filepath.Rel(work, pth)
		ok := !strings.Contains(rel, "/") && !strings.HasPrefix(rel, "..") && (rel == "grol.png" ||
			(strings.HasSuffix(rel, ".gr") && (c17Allowed(cfg, rel) || c17Allowed(cfg, strings.TrimSuffix(rel, ".gr")))))
		if !ok {
			c.Violate("syscall-outside", "io:syscall-outside:"+cfg.name, cs, "strace shows a write-type access outside the allowed set: "+clip(line))
		}
	}
	c.Count("strace_write_accesses_checked", int64(n))
}

func (p c17) RunBatch(c *fw.Ctx) {
	cfg := c17Configs[c.Batch%len(c17Configs)]
	maxLen := c.Pick(3, 5)
	if !cfg.restricted || !cfg.hasIO {
		maxLen = 2 // control configurations and the no-load/save ones need no large enumeration
	}
	c.Begin(c17Case{Config: cfg.name, Len: maxLen})
	p.runConfig(c, cfg, maxLen, "", false)
	if !c.Quick() && cfg.restricted && cfg.hasIO {
		p.runConfig(c, cfg, 3, "", true)
	}
	c.Sample(c17Case{Config: cfg.name, Name: fw.Q("../a.gr"), Len: maxLen})
}

func (p c17) ReplayCase(c *fw.Ctx, input json.RawMessage) {
	var cs c17Case
	if err := json.Unmarshal(input, &cs); err != nil || cs.Config == "" {
		return
	}
	for _, cfg := range c17Configs {
		if cfg.name == cs.Config {
			p.runConfig(c, cfg, 2, cs.Name, false)
		}
	}
}

var _ = sort.Strings
