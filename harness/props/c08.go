package props

import (
	"encoding/json"
	"fmt"
	"runtime"
	"strings"

	"grol.io/grol/ast"
	"verif/canon"
	"verif/fw"
	"verif/gensyn"
)

// C08: the front end is total on arbitrary bytes.

type c08 struct{ fw.Base }

func init() { fw.Register(c08{}) }

func (c08) ID() string { return "C08" }
func (c08) Rule() string {
	return "every token string of length <=3 (thorough: <=4) over a 65-token alphabet (identifier, numbers, string, both comments, every operator and delimiter, keywords and builtins, newline, NUL, byte 0xC3), " +
		"joined with and without spaces, in file and line mode; random token sequences up to 40 tokens; every token-boundary truncation and byte mutations of grammar-generated programs and of the shipped corpus. " +
		"Each input is lexed+parsed under recover(); accepted trees are walked for missing children and printed in normal/compact/all-parens mode; error messages are checked to quote lines of the input. " +
		"non-trivial = input for which the parser produced >=1 statement or >=1 error; distinct = distinct (input, mode)."
}
func (c08) Exhaustive(string) bool { return true }
func (c08) NumBatches(tier string) int {
	if tier == "thorough" {
		return 64
	}
	return 16
}
func (c08) Assumptions() []string {
	return []string{"termination is observed through a per-batch watchdog: a batch that does not finish is replayed on its journaled input alone; a reproducible hang is a violation, an unreproducible one inconclusive",
		"'missing child' allows nil only for the right operand of an open range a[n:], a bare return, a missing else and an anonymous function's name"}
}

var c08Alphabet = []string{
	"a", "1", "1.5", `"s"`, "// c\n", "/* c */",
	"+", "-", "*", "/", "%", "=", "==", "!=", "<", ">", "<=", ">=", "&&", "||", "!", "&", "|", "^", "~", "<<", ">>", "++", "--", "=>", ":=", ":", ".", "..",
	",", ";", "(", ")", "{", "}", "[", "]",
	"if", "else", "for", "func", "return", "break", "macro", "quote", "unquote", "len", "print", "true", "del", "catch",
	"\n", "\x00", "\xc3", "`r`", "\r", "// d",
	// unterminated strings: ending inside an escape (the lexer runs past the end of the input) and a raw one
	"\"a\\", "\"\\u00", "`u",
}

type c08Case struct {
	In    string `json:"input"` // Go-quoted
	Line  bool   `json:"line_mode"`
	Alloc bool   `json:"check_allocation,omitempty"` // also bound what lexing and parsing it allocates
}

// lineOfInput reports whether quoted is a run of whole lines of the input.
func lineOfInput(input, quoted string) bool {
	if quoted == "" {
		return true
	}
	from := 0
	for {
		i := strings.Index(input[from:], quoted)
		if i < 0 {
			return false
		}
		i += from
		startOK := i == 0 || input[i-1] == '\n'
		e := i + len(quoted)
		endOK := e == len(input) || input[e] == '\n'
		if startOK && endOK {
			return true
		}
		from = i + 1
		if from >= len(input) {
			return false
		}
	}
}

// c08Check returns the first violation on one input.
func c08Check(src string, lineMode bool) (kind, detail string, nontrivial bool) {
	res := parseSrc(src, lineMode)
	if res.panic != "" {
		return "parse-panic", res.panic, true
	}
	nontrivial = len(res.errs) > 0 || (res.prog != nil && len(res.prog.Statements) > 0)
	if res.cont && !lineMode {
		// file mode: a continuation request alone reports nothing the caller can act on, but
		// the property asks for at least one of errors / continuation / tree, which holds.
		_ = res
	}
	if len(res.errs) == 0 && !res.cont && res.prog == nil {
		return "no-outcome", "no errors, no continuation and no tree", true
	}
	for _, e := range res.errs {
		// Messages end with "\n<source line>\n<spaces>^". Token literals quoted in the header may
		// themselves contain newlines, so accept any suffix (starting after a newline) that is a run of
		// whole input lines.
		last := strings.LastIndexByte(e, '\n')
		if last < 0 {
			continue
		}
		if marker := e[last+1:]; strings.Trim(marker, " ") != "^" {
			return "error-marker", fmt.Sprintf("error message %q has marker line %q", e, marker), true
		}
		ok := false
		for i := 0; i < last && !ok; i++ {
			if e[i] == '\n' && lineOfInput(src, e[i+1:last]) {
				ok = true
			}
		}
		if !ok && strings.IndexByte(e[:last], '\n') >= 0 {
			return "error-line", fmt.Sprintf("error message %q does not quote a line of the input", e), true
		}
	}
	if !res.accepted() {
		return "", "", nontrivial
	}
	if m := canon.Missing(res.prog); m != "" {
		return "missing-child", "accepted without errors but the tree has a missing child at " + m, true
	}
	for _, mode := range [][2]bool{{false, false}, {true, false}, {true, true}, {false, true}} {
		if _, pm := printNode(res.prog, mode[0], mode[1]); pm != "" {
			return "print-panic", fmt.Sprintf("PrettyPrint(compact=%v,allparens=%v) panicked: %s", mode[0], mode[1], pm), true
		}
	}
	return "", "", nontrivial
}

var _ ast.Node

func (p c08) one(c *fw.Ctx, src string, lineMode bool) {
	c.Eval(1)
	kind, detail, nt := c08Check(src, lineMode)
	if nt {
		c.ShapeH(hashBytes([]byte(src), lineMode))
	}
	if kind != "" {
		sig := "front:" + kind
		c.Violate(kind, sig, c08Case{In: fw.Q(src), Line: lineMode}, detail)
	}
}

func (p c08) both(c *fw.Ctx, src string) {
	c.Begin(c08Case{In: fw.Q(src)})
	p.one(c, src, false)
	p.one(c, src, true)
}

// bounded runs both modes and bounds what they allocate by a multiple of the input size.
func (p c08) bounded(c *fw.Ctx, src string) {
	var m0, m1 runtime.MemStats
	runtime.ReadMemStats(&m0)
	p.both(c, src)
	runtime.ReadMemStats(&m1)
	if alloc := m1.TotalAlloc - m0.TotalAlloc; alloc > uint64(len(src))*2000+(64<<20) {
		c.Violate("parse-allocation", "front:parse-allocation", c08Case{In: fw.Q(src), Alloc: true}, fmt.Sprintf("lexing and parsing %d bytes in both modes allocated %d MiB", len(src), alloc>>20))
	}
}

func (p c08) RunBatch(c *fw.Ctx) {
	// syntax nested deeper than anything may recurse on: chains of else-if, like parentheses, must be refused or printable
	if c.Batch == 1%c.NBatches {
		for _, n := range []int{9000, 11000, c.Pick(3000000, 3000000)} {
			p.both(c, "if a {} "+strings.Repeat("else if a {} ", n))
			p.both(c, "x = "+strings.Repeat("if a {1} else {", n)+"2"+strings.Repeat("}", n))
			c.Count("deep_else_if_chains", 2)
		}
	}
	// one very long line of tokens that each are an error: reporting must stay proportional to the input (what is
	// allocated while parsing is counted: deterministic, unlike time)
	if c.Batch == 2%c.NBatches {
		for _, junk := range []string{"*/ ", ") ", "] ", "} ", ", ", "=> ", ": ", "else ", "\"a\" \"b\" ", "1 2 ", ". "} {
			for _, n := range []int{3000, 30000} {
				p.bounded(c, "1 "+strings.Repeat(junk, n))
				c.Count("long_garbage_lines", 1)
			}
		}
	}
	InitGrol(nil)
	maxLen := c.Pick(3, 4)
	A := c08Alphabet
	idx := 0
	cur := make([]string, 0, 8)
	var rec func(depth int)
	rec = func(depth int) {
		if idx%c.NBatches == c.Batch && depth > 0 {
			p.both(c, strings.Join(cur, " "))
			if depth > 1 {
				p.both(c, strings.Join(cur, ""))
			}
			c.Count("exhaustive_token_strings", 1)
		}
		idx++
		if depth == maxLen {
			return
		}
		for _, a := range A {
			cur = append(cur, a)
			rec(depth + 1)
			cur = cur[:len(cur)-1]
		}
	}
	rec(0)
	c.Sample(map[string]any{"input": fw.Q("if ( =>"), "modes": "file+line", "note": "one of the enumerated token strings"})
	p.frames(c)
	// random token sequences
	nRand := c.Pick(12000, 150000)
	for i := 0; i < nRand; i++ {
		n := 4 + c.Rng.IntN(37)
		parts := make([]string, n)
		for j := range parts {
			parts[j] = A[c.Rng.IntN(len(A))]
		}
		sep := " "
		if c.Rng.IntN(4) == 0 {
			sep = ""
		}
		p.both(c, strings.Join(parts, sep))
		c.Count("random_token_strings", 1)
	}
	// grammar-generated programs: every truncation at a token boundary + byte/token mutations
	nProg := c.Pick(250, 4000)
	for i := 0; i < nProg; i++ {
		g := gensyn.New(c.Rng)
		g.Program(1+c.Rng.IntN(4), 1+c.Rng.IntN(4))
		src, offs := gensyn.Render(g.Toks, c.Rng)
		p.both(c, src)
		c.Count("generated_programs", 1)
		if i == 0 {
			c.Sample(map[string]any{"generated_program": src})
		}
		for _, o := range offs {
			p.both(c, src[:o])
			c.Count("truncations", 1)
		}
		for m := 0; m < 6; m++ {
			p.both(c, gensyn.MutateBytes(c.Rng, src))
			ms, _ := gensyn.Render(gensyn.MutateTokens(c.Rng, g.Toks), c.Rng)
			p.both(c, ms)
			c.Count("mutations", 2)
		}
	}
	// corpus truncations and mutations
	corpus := Corpus()
	for fi, b := range corpus {
		if fi%c.NBatches != c.Batch {
			continue
		}
		src := string(b)
		p.both(c, src)
		step := c.Pick(7, 1)
		for cut := 0; cut < len(src); cut += step {
			p.both(c, src[:cut])
			c.Count("corpus_truncations", 1)
		}
		for m := 0; m < c.Pick(60, 1500); m++ {
			p.both(c, gensyn.MutateBytes(c.Rng, src))
			c.Count("corpus_mutations", 1)
		}
	}
}

func (p c08) ReplayCase(c *fw.Ctx, input json.RawMessage) {
	InitGrol(nil)
	var cs c08Case
	if err := json.Unmarshal(input, &cs); err != nil {
		return
	}
	src := fw.UQ(cs.In)
	if cs.Alloc {
		p.bounded(c, src)
		return
	}
	p.one(c, src, cs.Line)
	if !cs.Line {
		p.one(c, src, true)
	}
}
