package props

import (
	"encoding/json"
	"fmt"
	"strings"
	"time"

	"grol.io/grol/object"
	"verif/fw"
)

// C12: ordering and equality are coherent and total — algebraic-law monitor over a value universe.

type c12 struct{ fw.Base }

func init() { fw.Register(c12{}) }

func (c12) ID() string { return "C12" }
func (c12) Rule() string {
	return "a curated universe of ~95 values built by evaluating grol literals (ints 0, +-1, 2^53-1..2^53+2, min/max; floats -0, 0, 1, 1.5, 2^53, 2^53+2, 2^63, +-Inf, NaN; strings; bools; nil; arrays and maps empty, equal-length, nested, small and large, int-vs-float elements; functions, an extension value, quote values): " +
		"all pairs and all triples at API level (reflexivity, antisymmetry, transitivity of Cmp; symmetry, transitivity of Equals; Equals => Cmp==0; Equals(v, copy of v)), all pairs at language level (a<b <=> b>a, a<=b <=> !(a>b), a==b <=> !(a!=b), min/max agree with <, map lookup agrees with order-equivalence), " +
		"plus random nested values. No assumption is made about which order it is. non-trivial = every pair/triple of distinct universe indexes; distinct = distinct index tuples."
}
func (c12) Exhaustive(string) bool { return true }
func (c12) NumBatches(tier string) int {
	if tier == "thorough" {
		return 32
	}
	return 16
}
func (c12) Assumptions() []string {
	return []string{"values are exactly what a program can hold: they are obtained by evaluating the literals in a real session"}
}

var c12Universe = []string{
	"0", "1", "-1", "2", "9007199254740991", "9007199254740992", "9007199254740993", "9007199254740994", "9223372036854775807", "-9223372036854775807 - 1", "9223372036854775806",
	"0.0", "-0.0", "1.0", "1.5", "2.0", "9007199254740992.0", "9007199254740994.0", "9223372036854775808.0", "-9223372036854775808.0", "Inf", "-Inf", "NaN", "0.5", "1e300",
	`""`, `"a"`, `"ab"`, `"b"`, `"A"`, `"é"`, `"\xff"`,
	"true", "false", "nil",
	"[]", "[1]", "[1.0]", "[2]", "[1, 2]", "[1, 2.0]", "[2, 1]", "[[1]]", "[[1.0]]", "[[]]", `["a"]`, "[nil]", "[true]", "[NaN]", "[1, 2, 3, 4, 5, 6, 7, 8]", "[1, 2, 3, 4, 5, 6, 7, 8, 9]", "[1, 2, 3, 4, 5, 6, 7, 8, 9.0]", "[1, 2, 3, 4, 5, 6, 7, 8, 10]",
	"[9007199254740993]", "[9007199254740992.0]", "[9007199254740992]",
	"{}", "{1: 1}", "{1: 1.0}", "{1.0: 1}", "{1: 2}", "{2: 1}", `{"a": 1}`, `{"a": 1, "b": 2}`, `{"b": 2, "a": 1}`, "{1: 1, 2: 2, 3: 3, 4: 4}", "{1: 1, 2: 2, 3: 3, 4: 4, 5: 5}", "{1: 1, 2: 2, 3: 3, 4: 4, 5: 5.0}", "{1: 1, 2: 2, 3: 3, 4: 4, 6: 5}",
	"{[1]: 1}", "{nil: 1}", "{true: nil}", "{1: [1]}", "{1: {1: 1}}",
	"x => x", "x => x + 1", "func(a, b) {a}", "y => y", "min", "max", "quote(1)", "quote(a + b)", "quote(1 + 1)",
	"[x => x]", "{1: x => x}", "[quote(1)]", "[max]",
	"1 << 62", "3", "-2", "2.5", "-1.5", `"1"`, "[0]", "[0.0]", "[-0.0]",
	// values that share storage with one another (slices and ranges of one long array / large map, see c12Build), next to the
	// literals [1, ..., 9] and {1: 1, ..., 5: 5} above that equal two of them
	"zl", "zl[0:9]", "zl[0:10]", "zl[1:10]", "zl[0:8]", "rest(zl)", "[zl[0:9]]", "zm", "zm[0:5]", "zm[0:6]", "rest(zm)", "zm[1:7]", "{1: zm[0:5]}", "[zm, zl]",
	// closures with the same text over different captured values
	"(n => (x => x + n))(1)", "(n => (x => x + n))(2)", "[(n => (x => x + n))(1)]", "{1: (n => (x => x + n))(2)}",
	// large maps whose integer keys are further apart than 2^63, written in different orders (equal by construction, see c12SamePairs)
	"{-5: 1, -4: 2, -3: 3, -2: 4, -1: 5, 9223372036854775807: 6}", "{9223372036854775807: 6, -1: 5, -2: 4, -3: 3, -4: 2, -5: 1}",
	"{-9223372036854775807 - 1: 0, 1: 1, 2: 2, 3: 3, 4: 4, 5: 5}", "{5: 5, 4: 4, 3: 3, 2: 2, 1: 1, -9223372036854775807 - 1: 0}",
	"{-7000000000000000000: 1, -6000000000000000000: 2, -5000000000000000000: 3, 1: 4, 2: 5, 5000000000000000000: 6}",
	"{5000000000000000000: 6, 2: 5, 1: 4, -5000000000000000000: 3, -6000000000000000000: 2, -7000000000000000000: 1}",
}

// c12SamePairs are universe entries that denote the same value written differently: they must be Equals and order-equivalent.
// c12Setup binds what the universe entries refer to.
const c12Setup = "a = 1; b = 2; zl = [1, 2, 3, 4, 5, 6, 7, 8, 9, 10, 11, 12]; zm = {1: 1, 2: 2, 3: 3, 4: 4, 5: 5, 6: 6, 7: 7, 8: 8}"

var c12SamePairs = [][2]string{
	{"zl[0:9]", "[1, 2, 3, 4, 5, 6, 7, 8, 9]"}, {"zm[0:5]", "{1: 1, 2: 2, 3: 3, 4: 4, 5: 5}"}, {"zl[0:8]", "[1, 2, 3, 4, 5, 6, 7, 8]"},
	{"{-5: 1, -4: 2, -3: 3, -2: 4, -1: 5, 9223372036854775807: 6}", "{9223372036854775807: 6, -1: 5, -2: 4, -3: 3, -4: 2, -5: 1}"},
	{"{-9223372036854775807 - 1: 0, 1: 1, 2: 2, 3: 3, 4: 4, 5: 5}", "{5: 5, 4: 4, 3: 3, 2: 2, 1: 1, -9223372036854775807 - 1: 0}"},
	{"{-7000000000000000000: 1, -6000000000000000000: 2, -5000000000000000000: 3, 1: 4, 2: 5, 5000000000000000000: 6}", "{5000000000000000000: 6, 2: 5, 1: 4, -5000000000000000000: 3, -6000000000000000000: 2, -7000000000000000000: 1}"},
	{`{"a": 1, "b": 2}`, `{"b": 2, "a": 1}`},
}

type c12Case struct {
	A string `json:"a"`
	B string `json:"b"`
	C string `json:"c,omitempty"`
}

func safeCmp(a, b object.Object) (r int, p string) {
	defer func() {
		if x := recover(); x != nil {
			p = fmt.Sprint(x)
		}
	}()
	return object.Cmp(a, b), ""
}

func safeEq(a, b object.Object) (r bool, p string) {
	defer func() {
		if x := recover(); x != nil {
			p = fmt.Sprint(x)
		}
	}()
	return object.Equals(a, b), ""
}

func sign(x int) int {
	switch {
	case x < 0:
		return -1
	case x > 0:
		return 1
	}
	return 0
}

func c12Build(srcs []string) ([]object.Object, []object.Object, string) {
	ss := newSession(false)
	ss.eval(c12Setup, time.Second)
	mk := func() ([]object.Object, string) {
		out := make([]object.Object, len(srcs))
		for i, s := range srcs {
			l := ss.s
			// evaluate through the session so the value is exactly what a program holds
			ss.out.Reset()
			res := ss.evalObj("(" + s + ")")
			if res == nil {
				return nil, "cannot build universe value " + s
			}
			_ = l
			out[i] = res
		}
		return out, ""
	}
	v1, e := mk()
	if e != "" {
		return nil, nil, e
	}
	v2, e := mk()
	return v1, v2, e
}

func (p c12) RunBatch(c *fw.Ctx) {
	InitGrol(nil)
	U := c12Universe
	vals, copies, e := c12Build(U)
	if e != "" {
		c.Violate("universe", "universe", c12Case{}, e)
		return
	}
	n := len(vals)
	viol := func(kind string, i, j, k int, detail string) {
		cs := c12Case{A: U[i], B: U[j]}
		if k >= 0 {
			cs.C = U[k]
		}
		c.Violate(kind, "law:"+kind, cs, detail)
	}
	c.Sample(map[string]any{"pair": []string{"9007199254740993", "9007199254740992.0"}, "universe_size": n})
	// pairs (all batches do all pairs: cheap) and triples partitioned by first index
	cmp := make([][]int, n)
	for i := 0; i < n; i++ {
		cmp[i] = make([]int, n)
		for j := 0; j < n; j++ {
			r, pm := safeCmp(vals[i], vals[j])
			if pm != "" {
				if c.Batch == 0 {
					viol("cmp-panic", i, j, -1, "Cmp panicked: "+pm)
				}
				r = 99
			}
			cmp[i][j] = r
		}
	}
	if c.Batch == 0 {
		// the same value written differently
		index := map[string]int{}
		for i, u := range U {
			index[u] = i
		}
		for _, pr := range c12SamePairs {
			i, oki := index[pr[0]]
			j, okj := index[pr[1]]
			if !oki || !okj {
				continue
			}
			c.Eval(1)
			if eq, pm := safeEq(vals[i], vals[j]); pm == "" && !eq {
				viol("same-value-not-equal", i, j, -1, "two spellings of one value are not Equals: "+vals[i].Inspect()+" vs "+vals[j].Inspect())
			} else if cmp[i][j] != 0 && cmp[i][j] != 99 {
				viol("same-value-not-equal", i, j, -1, fmt.Sprintf("two spellings of one value: Cmp=%d", cmp[i][j]))
			}
		}
		for i := 0; i < n; i++ {
			c.Eval(1)
			if cmp[i][i] != 0 && cmp[i][i] != 99 {
				viol("reflexivity", i, i, -1, fmt.Sprintf("Cmp(v,v)=%d", cmp[i][i]))
			}
			if eq, pm := safeEq(vals[i], copies[i]); pm != "" {
				viol("equals-panic", i, i, -1, pm)
			} else if !eq {
				viol("copy-not-equal", i, i, -1, "a value is not == a copy of itself (same literal evaluated twice)")
			}
			for j := 0; j < n; j++ {
				c.Eval(1)
				c.Shape(fmt.Sprintf("p%d,%d", i, j))
				if cmp[i][j] == 99 || cmp[j][i] == 99 {
					continue
				}
				if sign(cmp[i][j]) != -sign(cmp[j][i]) {
					viol("antisymmetry", i, j, -1, fmt.Sprintf("Cmp(a,b)=%d but Cmp(b,a)=%d", cmp[i][j], cmp[j][i]))
				}
				eij, p1 := safeEq(vals[i], vals[j])
				eji, p2 := safeEq(vals[j], vals[i])
				if p1 != "" || p2 != "" {
					viol("equals-panic", i, j, -1, p1+p2)
					continue
				}
				if eij != eji {
					viol("equals-symmetry", i, j, -1, fmt.Sprintf("Equals(a,b)=%v Equals(b,a)=%v", eij, eji))
				}
				if eij && cmp[i][j] != 0 {
					viol("equals-implies-cmp0", i, j, -1, fmt.Sprintf("Equals but Cmp=%d", cmp[i][j]))
				}
			}
		}
	}
	eq := make([][]bool, n)
	for i := range eq {
		eq[i] = make([]bool, n)
		for j := range eq[i] {
			eq[i][j], _ = safeEq(vals[i], vals[j])
		}
	}
	for i := 0; i < n; i++ {
		if i%c.NBatches != c.Batch {
			continue
		}
		for j := 0; j < n; j++ {
			for k := 0; k < n; k++ {
				c.Eval(1)
				c.ShapeH(uint64(i)<<40 | uint64(j)<<20 | uint64(k))
				if cmp[i][j] == 99 || cmp[j][k] == 99 || cmp[i][k] == 99 {
					continue
				}
				if cmp[i][j] <= 0 && cmp[j][k] <= 0 && cmp[i][k] > 0 {
					viol("transitivity", i, j, k, fmt.Sprintf("a<=b (Cmp=%d) and b<=c (Cmp=%d) but Cmp(a,c)=%d", cmp[i][j], cmp[j][k], cmp[i][k]))
				}
				if eq[i][j] && eq[j][k] && !eq[i][k] {
					viol("equals-transitivity", i, j, k, "a==b and b==c but not a==c")
				}
			}
		}
	}
	// language level, pairs partitioned
	ss := newSession(false)
	ss.eval(c12Setup, time.Second)
	idx := 0
	for i := 0; i < n; i++ {
		for j := 0; j < n; j++ {
			idx++
			if idx%c.NBatches != c.Batch {
				continue
			}
			c.Eval(1)
			A, B := "("+U[i]+")", "("+U[j]+")"
			prog := fmt.Sprintf("va = %s; vb = %s; [va < vb, vb > va, va <= vb, !(va > vb), va == vb, !(va != vb), va >= vb, !(va < vb)]", A, B)
			c.Begin(c12Case{A: U[i], B: U[j]})
			o := ss.eval(prog, time.Second)
			if o.panicked != "" || o.isErr {
				viol("lang-compare-fails", i, j, -1, "comparing from source fails: "+outStr(o))
				continue
			}
			s := valStr(o.val)
			parts := strings.Split(strings.Trim(s, "[]"), ",")
			if len(parts) == 8 {
				for q := 0; q < 8; q += 2 {
					if parts[q] != parts[q+1] {
						viol("lang-operators-inconsistent", i, j, -1, "[a<b, b>a, a<=b, !(a>b), a==b, !(a!=b), a>=b, !(a<b)] = "+s)
						break
					}
				}
			}
			if strings.Contains(U[i], "=>") || strings.Contains(U[i], "func") || strings.Contains(U[j], "=>") || strings.Contains(U[j], "func") {
				continue // min/max spread a trailing array argument and functions are fine but uninteresting here
			}
			if strings.HasPrefix(U[j], "[") || strings.HasPrefix(U[j], "zl") || strings.HasPrefix(U[j], "rest(zl") {
				continue // a trailing array argument of min/max is spread into separate arguments by design
			}
			mm := ss.eval("[min(va, vb) == va, va <= vb, max(va, vb) == vb || vb < va, {va: 1}[vb] != nil, (va <= vb) && (vb <= va)]", time.Second)
			if mm.isErr {
				if !strings.Contains(mm.errMsg, "not hashable") {
					viol("lang-minmax-fails", i, j, -1, outStr(mm))
				}
				continue
			}
			ps := strings.Split(strings.Trim(valStr(mm.val), "[]"), ",")
			if len(ps) == 5 {
				if ps[0] != ps[1] && !(ps[4] == "true") {
					viol("lang-min-inconsistent", i, j, -1, "[min(a,b)==a, a<=b, max ok, lookup, equivalent] = "+valStr(mm.val))
				}
				if ps[3] != ps[4] {
					viol("lang-lookup-inconsistent", i, j, -1, "{a:1}[b] found="+ps[3]+" but order-equivalent="+ps[4])
				}
			}
		}
	}
}

func (p c12) ReplayCase(c *fw.Ctx, input json.RawMessage) {
	InitGrol(nil)
	var cs c12Case
	if err := json.Unmarshal(input, &cs); err != nil || cs.A == "" {
		return
	}
	srcs := []string{cs.A, cs.B}
	if cs.C != "" {
		srcs = append(srcs, cs.C)
	}
	vals, _, e := c12Build(srcs)
	if e != "" {
		return
	}
	c.Eval(1)
	ab, p1 := safeCmp(vals[0], vals[1])
	ba, p2 := safeCmp(vals[1], vals[0])
	if p1 != "" || p2 != "" {
		c.Violate("cmp-panic", "law:cmp-panic", cs, p1+p2)
		return
	}
	if sign(ab) != -sign(ba) {
		c.Violate("antisymmetry", "law:antisymmetry", cs, fmt.Sprintf("Cmp(a,b)=%d Cmp(b,a)=%d", ab, ba))
	}
	if len(vals) == 3 {
		bc, _ := safeCmp(vals[1], vals[2])
		ac, _ := safeCmp(vals[0], vals[2])
		if ab <= 0 && bc <= 0 && ac > 0 {
			c.Violate("transitivity", "law:transitivity", cs, fmt.Sprintf("Cmp(a,b)=%d Cmp(b,c)=%d Cmp(a,c)=%d", ab, bc, ac))
		}
	}
}
