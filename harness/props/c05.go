package props

import (
	"encoding/json"
	"fmt"
	"strings"
	"time"
	"verif/gensyn"

	"grol.io/grol/object"
	"verif/fw"
	"verif/gt"
)

// C05: integer registers are unobservable — differential monitor over State.NoReg.

type c05 struct{ fw.Base }

func init() { fw.Register(c05{}) }

func (c05) ID() string { return "C05" }
func (c05) Rule() string {
	return "sessions run twice on fresh states, registers on and off, compared input by input (printed text, value, error status): (a) typed-grammar programs split into inputs; " +
		"(b) register-hostile templates: functions of 0..12 parameters with integers in all/some positions, parameters mutated by = ++ -- and assigned non-integers, closures and nested function literals over parameters and loop variables, " +
		"counted loops nested to depth 10, every exit (fall off, break, continue, return, error) from every level, 5..40 top-level loops on one state, loops in functions called many times; " +
		"(c) an enumerated family of loop variables that coincide with another binding or are read after the loop (the open finding), tagged by construction. " +
		"non-trivial = the register run allocated >=1 register (hook counter); distinct = distinct session texts."
}
func (c05) NumBatches(tier string) int {
	if tier == "thorough" {
		return 64
	}
	return 16
}
func (c05) Assumptions() []string {
	return []string{"programs do not call type() or info", "both runs failing counts as agreement (error wording is not compared) except that a Go panic on one side only is a difference",
		"the random templates use fresh loop-variable names and never read a loop variable after its loop: that region is the tagged family (c) matched against the open finding"}
}

type c05Case struct {
	Inputs []string `json:"inputs"`
	Tag    string   `json:"tag,omitempty"`
}

func (p c05) compare(c *fw.Ctx, inputs []string, tag string) {
	c.Eval(1)
	before := object.VerifRegMade
	a := runSession(inputs, sessCfg{noReg: false}, 3*time.Second)
	made := object.VerifRegMade - before
	b := runSession(inputs, sessCfg{noReg: true}, 3*time.Second)
	c.Count("registers_allocated", made)
	if made > 0 {
		c.ShapeH(fnv64(strings.Join(inputs, "\x01")))
		c.Count("nontrivial_sessions", 1)
	}
	if anyTimeout(a) || anyTimeout(b) {
		c.Count("timeouts_skipped", 1)
		return
	}
	if anyMemoryGuard(a) || anyMemoryGuard(b) {
		c.Count("memory_guard_skipped", 1)
		return
	}
	i := diffSessions(a, b)
	if i < 0 {
		return
	}
	small := inputs
	if tag == "" {
		small = shrinkInputs(inputs, func(in []string) bool {
			x := runSession(in, sessCfg{noReg: false}, time.Second)
			y := runSession(in, sessCfg{noReg: true}, time.Second)
			return !anyTimeout(x) && !anyTimeout(y) && diffSessions(x, y) >= 0
		})
	}
	x := runSession(small, sessCfg{noReg: false}, 3*time.Second)
	y := runSession(small, sessCfg{noReg: true}, 3*time.Second)
	if anyTimeout(x) || anyTimeout(y) || anyMemoryGuard(x) || anyMemoryGuard(y) {
		c.Count("timeouts_skipped", 1) // the re-run of the (shrunk) case spent the harness's budget: nothing decided
		return
	}
	j := diffSessions(x, y)
	if j < 0 {
		small, x, y, j = inputs, a, b, i
	}
	kind := "reg-diff"
	if x[j].panicked != "" || y[j].panicked != "" {
		kind = "reg-panic"
	}
	sig := kind
	if tag != "" {
		sig += "|" + tag
	} else {
		sig += "|random"
	}
	c.Violate(kind, sig, c05Case{Inputs: small, Tag: tag},
		fmt.Sprintf("input %d %q: with registers %s; without registers %s", j, clip(small[j]), outStr(x[j]), outStr(y[j])))
}

func names(prefix string, n int) []string {
	out := make([]string, n)
	for i := range out {
		out[i] = fmt.Sprintf("%s%d", prefix, i)
	}
	return out
}

// hostileSession builds one register-hostile session.
func (p c05) hostileSession(c *fw.Ctx, uniq *int) []string {
	r := c.Rng
	fresh := func(pfx string) string { *uniq++; return fmt.Sprintf("%s%d", pfx, *uniq) }
	var in []string
	switch r.IntN(9) {
	case 0: // many parameters
		n := r.IntN(13)
		ps := names("p", n)
		var body []string
		for i, pn := range ps {
			switch r.IntN(8) {
			case 0:
				body = append(body, pn+" = "+pn+" + 1")
			case 1:
				body = append(body, pn+"++")
			case 2:
				body = append(body, "--"+pn)
			case 3:
				body = append(body, pn+" = \"s\"")
			case 4:
				body = append(body, "g"+fmt.Sprint(i)+" = () => "+pn+" * 2")
			case 5:
				body = append(body, "println("+pn+")")
			}
		}
		sum := "0"
		for _, pn := range ps {
			sum += " + " + pn
		}
		if r.IntN(3) == 0 {
			sum = "[" + strings.Join(ps, ", ") + "]"
		}
		body = append(body, sum)
		fn := fresh("f")
		in = append(in, "func "+fn+"("+strings.Join(ps, ", ")+") {"+strings.Join(body, "; ")+"}")
		for k := 0; k < 1+r.IntN(3); k++ {
			args := make([]string, n)
			for i := range args {
				switch r.IntN(6) {
				case 0:
					args[i] = "1.5"
				case 1:
					args[i] = `"a"`
				case 2:
					args[i] = "[1]"
				default:
					args[i] = fmt.Sprint(r.IntN(100) - 20)
				}
			}
			in = append(in, fn+"("+strings.Join(args, ", ")+")")
		}
	case 1: // nested counted loops with exits
		depth := 1 + r.IntN(10)
		var sb strings.Builder
		vars := make([]string, depth)
		for d := 0; d < depth; d++ {
			vars[d] = fresh("i")
			switch r.IntN(3) {
			case 0:
				fmt.Fprintf(&sb, "for %s = %d {", vars[d], 1+r.IntN(3))
			case 1:
				a := r.IntN(3)
				fmt.Fprintf(&sb, "for %s = %d:%d {", vars[d], a, a+1+r.IntN(2))
			default:
				fmt.Fprintf(&sb, "for %s = %d {", vars[d], 2)
			}
		}
		exit := []string{"", "break", "continue", "return 7", "error(\"e\")"}[r.IntN(5)]
		lvl := r.IntN(depth)
		fmt.Fprintf(&sb, "print(%s); ", strings.Join(vars, ", "))
		if exit != "" {
			fmt.Fprintf(&sb, "if %s == 1 {%s}; ", vars[lvl], exit)
		}
		if r.IntN(4) == 0 {
			fmt.Fprintf(&sb, "h = () => %s; print(h()); ", vars[r.IntN(depth)])
		}
		sb.WriteString(vars[depth-1])
		sb.WriteString(strings.Repeat("}", depth))
		body := sb.String()
		if r.IntN(2) == 0 {
			fn := fresh("f")
			in = append(in, "func "+fn+"() {"+body+"}")
			for k := 0; k < 1+r.IntN(12); k++ {
				in = append(in, fn+"()")
			}
		} else {
			in = append(in, body)
		}
	case 2: // many top-level loops on one state, each left in a different way
		n := 5 + r.IntN(36)
		for k := 0; k < n; k++ {
			v := fresh("i")
			exit := []string{"", "break", "continue", "return 3", "error(\"x\")", "1/0"}[r.IntN(6)]
			s := fmt.Sprintf("for %s = %d {", v, 2+r.IntN(3))
			if exit != "" {
				s += fmt.Sprintf("if %s == 1 {%s}; ", v, exit)
			}
			s += "print(" + v + ")}"
			in = append(in, s)
		}
		in = append(in, "for "+fresh("i")+" = 3 {print(\"ok\")}")
		// a loop left by return, used as an operand next to another loop
		in = append(in, "(for i = 3 {if i == 1 {return i}}) + (for j = 5 {j})", "[for i = 3 {if i == 1 {return i}}, for j = 5 {j}, for k = 2:7 {k}]",
			"func "+fresh("f")+"() {x = (for i = 3 {if i == 2 {return i}}); y = (for j = 9 {j}); [x, y]}()", "print((for i = 1:4 {if i == 2 {return i}}), (for j = 7 {j}))")
	case 3: // loop in a function called many times, with early return
		fn := fresh("f")
		v := fresh("i")
		in = append(in, fmt.Sprintf("func %s(n) {for %s = n {if %s == 2 {return %s * 10}}; -1}", fn, v, v, v))
		in = append(in, fmt.Sprintf("func %sb(n) {for %s = n {if %s == 2 {return %s}}; -1}", fn, v, v, v), fmt.Sprintf("[%sb(5), %sb(1), %sb(3)]", fn, fn, fn),
			fmt.Sprintf("func %sc(n) {for %s = 1:n {for j%s = 2 {if %s + j%s == 3 {return j%s}}}}", fn, v, v, v, v, v), fmt.Sprintf("[%sc(5), %sc(2)]", fn, fn))
		for k := 0; k < 20; k++ {
			in = append(in, fmt.Sprintf("%s(%d)", fn, r.IntN(5)))
		}
		in = append(in, "for "+fresh("i")+" = 2 {print(\"after\")}")
	case 4: // parameters captured / mutated in nested functions
		fn := fresh("f")
		in = append(in, "func "+fn+"(a, b) {inc = () => {a = a + 1; a}; x = inc() + inc(); b = b * 2; [a, b, x]}")
		in = append(in, fn+"(1, 2)", fn+"(1, 2.5)", fn+"(\"s\", 3)")
		in = append(in, "func "+fn+"r(n) {if n <= 0 {return 0}; n + "+fn+"r(n - 1)}", fn+"r(30)")
		// a parameter name given twice
		in = append(in, "func "+fn+"d(a, a) {a}", fn+"d(1, 2)", fn+"d(1, 2.5)", fn+"d(\"s\", 3)", "func "+fn+"e(a, b, a) {a = a + 1; [a, b]}", fn+"e(1, 2, 3)", fn+"e(1.5, 2, 3)", "((z, z) => z * 2)(4, 5)")
	case 5, 6, 7: // every way a body can mention the name of an integer parameter or counted-loop variable
		v := fresh("i")
		uses := []string{"print(V)", "print(a[0:V])", "print(a[V:])", "print(a[V:3])", "print(s[0:V], s[V:], s[V])", "print(m.V)", "print(m[\"V\"])", "print({\"V\": V})", "print({V: V})",
			"print([V, V + 1])", "print(eval(\"V + 1\"))", "V := \"s\"; print(V)", "V := V * 1.5; print(V)", "V := [V]; print(V)", "V := V + 1; print(V)", "print(-V, V << 2, V % 2, !(V == 1))",
			"t = t + V", "h = () => V; print(h())", "V = V + 1; print(V)", "V++; print(V)", "--V; print(V)", "print(V++)", "if V == 1 {continue}", "x = V; x = x + 1; print(x, V)", "m[V] = V; print(m)",
			"a[V] = V * 2; print(a)", "mm = {1: V}; print(mm)", "print(len(a) + V, first(a) * V)", "print(V == 1 && V < 2 || V > 5)", "w = [V]; w[0] = 7; print(w, V)", "print(sprintf(\"%d\", V))",
			"print(if V > 0 {V} else {-V})", "print(mf.V(V))", "for q = V {print(q)}", "for q = V:3 {print(q)}", "print(a[V], a[-V])", "eval(\"t = t + V\")",
			"cv = catch(V)", "print(quote(V + 1))", "qv = quote(V)", "cv = [catch(V), catch(V + 1)]",
			// large containers indexed by the name, and the constructs that disqualify a register placed inside literals
			"print(bm[V], bm[V + 1], ba[V])", "bm[V] = V; print(bm)", "print(bm[V] == nil, ba[V] + 1)",
			"print({\"v\": V, \"get\": () => V + 1}.get())", "print([V, () => V * 2][1]())", "print({\"k\": V++, \"j\": V})", "print([(V = V + 1), V])",
			"for q = 2 {q++; print(q)}", "for q = 2 {q--}", "for q = 3 {--q; print(q, V)}", "for q = 2 {for q2 = 2 {q2++}; print(q)}", "for q = 2 {q = q + 1}; print(V)",
			"if V == 1 {return V}", "for q = 3 {if q == 1 {return q}}", "for q = 1:4 {if q == 2 {return [q][0]}; if q == 3 {return q}}",
			"print({V: () => V})", "print({\"a\": {\"b\": [x => x + V]}}.a.b[0](1))", "print(if V > 0 {{\"f\": () => V}.f()} else {0})",
			// the name updated more than once inside one expression: every operand is the value at the time it was evaluated
			"print((++V) + (++V))", "print(++V == ++V)", "print(++V * --V)", "print((--V) - (--V), V)", "print([++V, ++V, V])", "print((V++) + (V++), V)", "print(V + (++V), (++V) + V)", "print((++V) * 10 + (V++))",
			"x = ++V; --V; print(x, V)", "print(++V < ++V, --V <= V)", "print({\"a\": ++V, \"b\": ++V})", "print(max(++V, ++V), min(--V, V))", "print((V = V + 1) + (V = V + 1))", "print(-(++V), !(++V == V))",
			// a named function defined inside the body under the very name of the parameter or loop variable
			"func V() {7}; print(V)", "func V(x) {x * 2}; print(V(3))", "func V() {7}", "if true {func V(a) {a}}; print(V)",
			// named functions defined inside the body that read the name, or have a parameter of that name
			"func nf() {V + 1}; print(nf())", "func nf2(V) {V * 2}; print(nf2(3), V)", "func nf3(a) {a + V}; print(nf3(1), nf3(2))", "func nf4(a, V) {[a, V]}; print(nf4(V, 7))", "func nf5() {func nf6() {V}; nf6()}; print(nf5())",
			"print({V: print(\"a\"), V: print(\"b\")})", "print({V: 1, V: 2, 9: V})", "print([{V: V, V: print(\"c\")}])"}
		setup := "cv = 0; qv = 0; bm = {0: \"a\", 1: \"b\", 2: \"c\", 3: \"d\", 4: \"e\", 5: \"f\", \"s\": 1, 2.5: 2}; ba = [0, 1, 2, 3, 4, 5, 6, 7, 8, 9, 10]; a = [10, 20, 30, 40]; m = {\"V\": 5, \"k\": 1, 1: \"one\"}; mf = {\"V\": z => z * 3}; s = \"hello\"; t = 0"
		var body []string
		for k := 0; k < 1+r.IntN(4); k++ {
			body = append(body, uses[r.IntN(len(uses))])
		}
		// (a function printed with %d shows Go pointers, which differ from run to run whatever the registers do)
		if strings.Contains(strings.Join(body, ";"), "func V") {
			kept := body[:0]
			for _, u := range body {
				if !strings.Contains(u, "sprintf") {
					kept = append(kept, u)
				}
			}
			body = kept
		}
		if r.IntN(3) > 0 {
			if r.IntN(6) == 0 {
				body = append(body, []string{"for V := 2 {print(V)}", "for V := 1:3 {t = t + V}"}[r.IntN(2)]) // last: nothing reads V after it
			}
			loop := []string{"for V = 3 {", "for V = 1:4 {", "for V = 0:2 {"}[r.IntN(3)] + strings.Join(body, "; ") + "}"
			if strings.Contains(loop, "continue") && r.IntN(2) == 0 {
				loop = strings.Replace(loop, "continue", "break", 1)
			}
			if r.IntN(6) == 0 && !strings.Contains(loop, "return") { // the loop inside a function named like its variable
				loop = "func V() {" + loop + "}; V()"
			}
			in = append(in, strings.ReplaceAll(setup, "V", v), strings.ReplaceAll(loop, "V", v), "for jq = 7 {}", "[a, m, s, t, cv, qv]")
		} else {
			fn := fresh("f")
			if r.IntN(6) == 0 {
				fn = v // a parameter named like the function it belongs to is still the parameter
			}
			b := strings.ReplaceAll(strings.Join(body, "; "), "continue", "return 0")
			in = append(in, strings.ReplaceAll(setup, "V", v), strings.ReplaceAll("func "+fn+"(V, w) {"+b+"; [V, w]}", "V", v))
			for k := 0; k < 1+r.IntN(3); k++ {
				in = append(in, fn+"("+[]string{"1", "2", "0", "3", "2.5", "\"s\""}[r.IntN(6)]+", "+[]string{"1", "7", "\"w\""}[r.IntN(3)]+")")
			}
			in = append(in, "for jq = 7 {}", "[a, m, s, t, cv, qv]")
		}
	default: // loop variable used as index / in containers / shifted
		v := fresh("i")
		in = append(in, fmt.Sprintf("a = [10, 20, 30]; m = {}; for %s = 3 {m[%s] = a[%s] << %s; a = a + %s}; [a, m]", v, v, v, v, v))
		in = append(in, fmt.Sprintf("t = 0; for %s = 1:6 {t = t + %s %% 3; if %s > 3 {continue}; t = t * 2}; t", v, v, v))
	}
	return in
}

// taggedFamily enumerates the loop-variable-coincidence programs (the open finding).
func taggedFamily() []c05Case {
	var out []c05Case
	add := func(tag string, inputs ...string) { out = append(out, c05Case{Inputs: inputs, Tag: tag}) }
	for _, form := range []string{"for i = 3 {%s}", "for i = 1:3 {%s}"} {
		loop := fmt.Sprintf(form, "print(i)")
		add("loopvar-coincides:global", "i = 7", loop, "i")
		add("loopvar-coincides:after-loop", loop, "i")
		add("loopvar-coincides:nested-same-name", "for i = 2 {"+loop+"; print(i)}")
		add("loopvar-coincides:param", "func f(i) {"+loop+"; i}", "f(5)")
		add("loopvar-coincides:outer-from-function", "i = 5", "func f() {"+loop+"; i}", "f()", "i")
		add("loopvar-coincides:closure-var", "func f() {i := 9; g = () => {"+loop+"; i}; g()}", "f()")
	}
	return out
}

func (p c05) RunBatch(c *fw.Ctx) {
	InitGrol(nil)
	registerHarnessExtensions()
	uniq := 0
	// (c) tagged family, batch 0 only
	if c.Batch == 0 {
		for _, cs := range taggedFamily() {
			c.Begin(cs)
			p.compare(c, cs.Inputs, cs.Tag)
			c.Count("tagged_family_cases", 1)
		}
	}
	// (b) hostile templates
	n := c.Pick(400, 12000)
	for i := 0; i < n; i++ {
		in := p.hostileSession(c, &uniq)
		c.Begin(c05Case{Inputs: in})
		p.compare(c, in, "")
		if i == 0 {
			c.Sample(map[string]any{"hostile_session": in})
		}
	}
	// (a) typed-grammar programs, one input per top-level statement
	m := c.Pick(1500, 40000)
	for i := 0; i < m; i++ {
		g := gt.NewGen(c.Rng)
		stmts := g.Program(3+c.Rng.IntN(8), 1+c.Rng.IntN(3))
		// the reference is only used to discard non-terminating programs
		if !refSessionUsable(stmts) {
			continue // non-terminating, or in the region of the aliasing finding (C06) where values may even become cyclic
		}
		rr := &gt.Renderer{}
		in := make([]string, len(stmts))
		for k, s := range stmts {
			in[k] = rr.Stmt(s, "")
		}
		c.Begin(c05Case{Inputs: in})
		p.compare(c, in, "")
	}
	// the shipped example and test programs, and mutations of them that still parse, as single inputs
	for fi, src := range corpusPrograms() {
		if fi%c.NBatches != c.Batch {
			continue
		}
		variants := []string{src}
		for m := 0; m < c.Pick(12, 300); m++ {
			mu := gensyn.MutateBytes(c.Rng, src)
			if r := parseSrc(mu, false); r.accepted() {
				variants = append(variants, mu)
			}
		}
		for _, v := range variants {
			in := []string{v}
			c.Begin(c05Case{Inputs: in})
			p.compare(c, in, "")
			c.Count("corpus_programs", 1)
		}
	}
}

func (p c05) ReplayCase(c *fw.Ctx, input json.RawMessage) {
	InitGrol(nil)
	registerHarnessExtensions()
	var cs c05Case
	if err := json.Unmarshal(input, &cs); err != nil {
		return
	}
	p.compare(c, cs.Inputs, cs.Tag)
}
