package props

import (
	"bytes"
	"encoding/json"
	"fmt"
	"regexp"
	"strings"
	"time"

	"grol.io/grol/ast"
	"grol.io/grol/eval"
	"verif/canon"
	"verif/fw"
	"verif/gt"
)

// C13: macro expansion is exact syntactic substitution — reference-model monitor on trees.

type c13 struct{ fw.Base }

func init() { fw.Register(c13{}) }

func (c13) ID() string { return "C13" }
func (c13) Rule() string {
	return "sessions of 1..4 inputs defining 1..3 macros (body = one quote(template); templates come from the typed expression grammar, each of 0..4 parameters used 0..3 times as operand, index, call argument, callee, condition, map key/value, inside nested function literals) " +
		"and using them 1..5 times (top level, inside functions, loops, as argument of another macro call, in callee position) with arguments that have side effects or operators binding looser than their context. " +
		"Oracle: the harness substitutes arguments textually (parenthesised) into the template, parses that with the real parser, and the canonical tree must equal the canonical tree returned by State.ExpandMacros; nothing may be written to the output during definition/expansion; " +
		"the expanded tree must print and re-parse to itself; evaluating the session and the hand-substituted session must give the same output and results. non-trivial = >=1 macro call really expanded; distinct = distinct session texts."
}
func (c13) NumBatches(tier string) int {
	if tier == "thorough" {
		return 64
	}
	return 16
}
func (c13) Assumptions() []string {
	return []string{"the template is a single expression; arguments are spliced as parenthesised text, which the parser turns into the same sub-tree",
		"macro calls inside a template (which are not re-expanded by design) are not generated"}
}

type c13Case struct {
	Inputs   []string `json:"inputs"`
	Expected []string `json:"hand_substituted"`
}

type c13Macro struct {
	name   string
	params []string
	tmpl   string // with holeN identifiers
}

var holeRe = regexp.MustCompile(`\bhole([0-9])\b`)

// ulitRe: ulit3 / ulittrue in a template stand for unquote(3) / unquote(true) in the macro and for the literal by hand.
var ulitRe = regexp.MustCompile(`\bulit(3|true|false|25|40|str)\b`)

func ulitText(m string) string {
	switch m {
	case "ulit25":
		return "2.5"
	case "ulit40":
		return "4.0" // a float whose value is integral: it stays a float in the expansion
	case "ulitstr":
		return "\"a\\tb\\\"c\""
	}
	return strings.TrimPrefix(m, "ulit")
}

func (m c13Macro) def() string {
	body := holeRe.ReplaceAllStringFunc(m.tmpl, func(h string) string {
		i := int(h[4] - '0')
		return "unquote(" + m.params[i] + ")"
	})
	body = ulitRe.ReplaceAllStringFunc(body, func(u string) string { return "unquote(" + ulitText(u) + ")" })
	return fmt.Sprintf("%s = macro(%s) {quote(%s)}", m.name, strings.Join(m.params, ", "), body)
}

func (m c13Macro) subst(args []string) string {
	body := holeRe.ReplaceAllStringFunc(m.tmpl, func(h string) string {
		i := int(h[4] - '0')
		return "(" + args[i] + ")"
	})
	body = ulitRe.ReplaceAllStringFunc(body, func(u string) string { return "(" + ulitText(u) + ")" })
	return "(" + body + ")"
}

// c13Contexts are syntactic positions (one per child slot of every node kind) a macro call or a template hole is put in.
var c13Contexts = []string{
	"-(%s)", "!(%s)", "(%s) + 1", "1 - (%s)", "arr[%s]", "arr[%s:]", "arr[0:%s]", "arr[%s:2]", "(%s)[0]", "(%s)[1:]", "[0, %s]", "{%s: 1}", "{1: %s}", "{\"k\": %s}.k",
	"if %s {1} else {2}", "if true {%s}", "if false {1} else {%s}", "if false {1} else if %s {2}", "for zk = %s {break}", "for zk = 0:%s {break}", "for zk = %s:3 {break}", "for %s {break}", "for 2 {%s}",
	"func() {return %s}()", "zx => %s", "(zx => zx)(%s)", "len([%s])", "mm[%s] = 1", "mm.k = %s", "mm[0] = %s", "zv = %s", "zv := %s", "catch(%s)", "(%s).k", "arr[%s][0]", "%s == 1 && true", "false || %s",
	"(func(za, ..) {[%s, ..]})(1, 2, 3)", "func zvar(za, ..) {len(..) + (%s)}", "zl = (a, ..) => {%s}; zl(1, 2)",
	"mm.(%s)", "{\"st\": 1, \"k\": 2}.(%s)", "arr.(%s)", "mm.(%s).x", "mm.k.(%s)",
	"del(mm[%s])", "println(1, %s)", "[1, 2, 3][%s:][0]", "(%s)(1)", "first([%s])", "{\"a\": [%s]}",
}

// genTemplate makes an expression over hole0..holeK-1 (and globals a, b, c).
func genTemplate(c *fw.Ctx, k int) string {
	g := gt.NewGen(c.Rng)
	g.IllTyped = 10
	g.NoClosure = true
	for i := 0; i < k; i++ {
		// holes are declared several times so they are picked often
		g.DeclareRO(fmt.Sprintf("hole%d", i), gt.TInt)
	}
	g.DeclareRO("a", gt.TInt)
	g.DeclareRO("b", gt.TInt)
	var n *gt.Node
	switch c.Rng.IntN(12) {
	case 11: // literals spliced with unquote besides the parameters
		if k > 0 {
			return []string{"hole0 + ulit3", "if ulittrue {hole0} else {ulit3}", "[ulit3, ulit25, hole0][ulit3 - 3]", "ulitfalse || hole0 == ulit3", "[ulit40 / 8, ulit40, hole0]", "[ulit3 / ulit40, hole0 / ulit40]", "[ulitstr, hole0, len(ulitstr)]"}[c.Rng.IntN(7)]
		}
		n = g.Expr(gt.TInt, 2)
	case 8, 9, 10: // a hole in one given child slot
		if k > 0 {
			ctx := c13Contexts[c.Rng.IntN(len(c13Contexts))]
			if strings.HasPrefix(ctx, "zv") || strings.HasPrefix(ctx, "mm") || strings.HasPrefix(ctx, "del(") || strings.HasPrefix(ctx, "for ") {
				ctx = "arr[%s:]" // templates are expressions
			}
			return fmt.Sprintf(ctx, fmt.Sprintf("hole%d", c.Rng.IntN(k)))
		}
		n = g.Expr(gt.TInt, 2)
	case 0: // callee position
		if k > 0 {
			return fmt.Sprintf("hole0(%s)", (&gt.Renderer{}).Expr(g.Expr(gt.TInt, 1), 2))
		}
		n = g.Expr(gt.TInt, 2)
	case 1: // lambda template
		if k > 0 {
			return fmt.Sprintf("zx => zx + hole%d", c.Rng.IntN(k))
		}
		n = g.Expr(gt.TInt, 2)
	case 2: // condition / block
		if k > 1 {
			return fmt.Sprintf("if hole0 {hole1} else {%s}", (&gt.Renderer{}).Expr(g.Expr(gt.TInt, 1), 2))
		}
		n = g.Expr(gt.TBool, 2)
	case 3: // map key and value, index
		if k > 1 && c.Rng.IntN(2) == 0 {
			return "{hole0: hole1}[hole0]"
		}
		if k > 0 { // the same parameter as key of several pairs: still one pair (and one evaluation of its value) per pair written
			return []string{"{hole0: println(\"a\"), hole0: println(\"b\")}", "{hole0: 1, hole0: 2}", "len({hole0: hole0, hole0: 2, 5: hole0})", "[{hole0: 1, hole0: println(\"c\")}, hole0]"}[c.Rng.IntN(4)]
		}
		n = g.Expr(gt.TArr, 2)
	case 4: // nested function literal
		if k > 0 {
			return fmt.Sprintf("func(zy) {zy * hole%d}(3)", c.Rng.IntN(k))
		}
		n = g.Expr(gt.TInt, 2)
	default:
		n = g.Expr(gt.T(c.Rng.IntN(4)), 1+c.Rng.IntN(2))
	}
	return (&gt.Renderer{}).Expr(n, 2)
}

func genArg(c *fw.Ctx) string {
	switch c.Rng.IntN(9) {
	case 0:
		return `println("side effect")`
	case 1:
		return "a = a + 1"
	case 2:
		return "a || b"
	case 3:
		return "x => x * 2"
	case 4:
		return "b"
	case 5:
		return fmt.Sprint(c.Rng.IntN(20))
	case 6:
		return "a < b && true"
	case 7:
		return `"s" + "t"`
	}
	g := gt.NewGen(c.Rng)
	g.DeclareRO("a", gt.TInt)
	g.DeclareRO("b", gt.TInt)
	return (&gt.Renderer{}).Expr(g.Expr(gt.T(c.Rng.IntN(3)), 1), 2)
}

// session builds the inputs and the hand-substituted inputs.
func (p c13) session(c *fw.Ctx) (inputs, expected []string, calls int) {
	r := c.Rng
	nm := 1 + r.IntN(3)
	macros := make([]c13Macro, nm)
	for i := range macros {
		k := r.IntN(5)
		ps := make([]string, k)
		for j := range ps {
			ps[j] = fmt.Sprintf("q%d", j)
		}
		// a parameter may be named like a macro, an extension function or a global: it is still just a parameter
		if k > 0 && r.IntN(3) == 0 {
			ps[r.IntN(k)] = []string{"mac0", "mac1", "mac2", "max", "min", "sprintf", "a", "arr", "mm"}[r.IntN(9)]
		}
		macros[i] = c13Macro{name: fmt.Sprintf("mac%d", i), params: ps, tmpl: genTemplate(c, k)}
	}
	nIn := 1 + r.IntN(4)
	curIn, curExp := []string{"a = 3; b = 4; arr = [1, 2, 3, 4]; mm = {\"k\": 1}"}, []string{"a = 3; b = 4; arr = [1, 2, 3, 4]; mm = {\"k\": 1}"}
	defined := 0
	flush := func() {
		inputs = append(inputs, strings.Join(curIn, ";\n"))
		expected = append(expected, strings.Join(curExp, ";\n"))
		curIn, curExp = nil, nil
	}
	uses := 1 + r.IntN(5)
	call := func(depth int) (string, string) {
		m := macros[r.IntN(defined)]
		args, eargs := make([]string, len(m.params)), make([]string, len(m.params))
		for i := range args {
			args[i] = genArg(c)
			eargs[i] = args[i]
		}
		calls++
		return m.name + "(" + strings.Join(args, ", ") + ")", m.subst(eargs)
	}
	for in := 0; in < nIn; in++ {
		// a macro defined in an earlier input is defined again (another template, possibly other parameters) at the start of
		// this one: every later call site expands to the new template
		if in > 0 && defined > 0 && r.IntN(3) == 0 {
			j := r.IntN(defined)
			k := r.IntN(5)
			if r.IntN(2) == 0 {
				k = len(macros[j].params)
			}
			ps := make([]string, k)
			for q := range ps {
				ps[q] = fmt.Sprintf("q%d", q)
			}
			macros[j] = c13Macro{name: macros[j].name, params: ps, tmpl: genTemplate(c, k)}
			curIn = append(curIn, macros[j].def())
		}
		// define some macros at the start of this input (always at least the first one in input 0)
		for defined < nm && (defined == 0 || r.IntN(2) == 0) {
			curIn = append(curIn, macros[defined].def())
			defined++
		}
		// a name that only becomes a macro in a later input is an ordinary (here: unbound) call until then; that must
		// not keep its later uses from being expanded
		if defined > 0 && defined < nm && r.IntN(2) == 0 {
			pre := fmt.Sprintf("catch(%s(1, 2)).err", macros[defined].name)
			curIn = append(curIn, pre)
			curExp = append(curExp, pre)
		}
		perIn := 1 + uses/nIn
		for u := 0; u < perIn; u++ {
			cs, es := call(0)
			switch r.IntN(11) {
			case 7, 8, 9, 10: // one given child slot
				ctx := c13Contexts[r.IntN(len(c13Contexts))]
				curIn = append(curIn, fmt.Sprintf(ctx, cs))
				curExp = append(curExp, fmt.Sprintf(ctx, es))
			case 0:
				curIn = append(curIn, fmt.Sprintf("r%d = %s", u, cs))
				curExp = append(curExp, fmt.Sprintf("r%d = %s", u, es))
			case 1:
				curIn = append(curIn, fmt.Sprintf("func fu%d(a) {%s}; fu%d(7)", u, cs, u))
				curExp = append(curExp, fmt.Sprintf("func fu%d(a) {%s}; fu%d(7)", u, es, u))
			case 2:
				curIn = append(curIn, fmt.Sprintf("for zi = 2 {println(%s)}", cs))
				curExp = append(curExp, fmt.Sprintf("for zi = 2 {println(%s)}", es))
			case 3: // as argument of another macro call
				m2 := macros[r.IntN(defined)]
				if len(m2.params) > 0 {
					args, eargs := make([]string, len(m2.params)), make([]string, len(m2.params))
					for i := range args {
						args[i], eargs[i] = genArg(c), ""
						eargs[i] = args[i]
					}
					args[0], eargs[0] = cs, es
					calls++
					curIn = append(curIn, "println("+m2.name+"("+strings.Join(args, ", ")+"))")
					curExp = append(curExp, "println("+m2.subst(eargs)+")")
				} else {
					curIn = append(curIn, cs)
					curExp = append(curExp, es)
				}
			case 4: // callee position
				curIn = append(curIn, fmt.Sprintf("catch(%s(2))", cs))
				curExp = append(curExp, fmt.Sprintf("catch(%s(2))", es))
			case 5:
				curIn = append(curIn, fmt.Sprintf("[%s, %s]", cs, cs))
				curExp = append(curExp, fmt.Sprintf("[%s, %s]", es, es))
			default:
				curIn = append(curIn, "println("+cs+")")
				curExp = append(curExp, "println("+es+")")
			}
		}
		flush()
		// an input that ends in a recovered panic (recursion past the depth limit) between two inputs: the macros
		// defined so far must survive it
		if in < nIn-1 && r.IntN(4) == 0 {
			inputs = append(inputs, "(func(zn) {1 + self(zn + 1)})(0)")
			expected = append(expected, "(func(zn) {1 + self(zn + 1)})(0)")
		}
	}
	return inputs, expected, calls
}

func (p c13) check(c *fw.Ctx, inputs, expected []string) (kind, detail string, expanded int) {
	defer func() {
		if r := recover(); r != nil {
			kind, detail = "panic", fmt.Sprint(r)
		}
	}()
	s := eval.NewState()
	var out bytes.Buffer
	s.Out = &out
	s.LogOut = &out
	s.NoLog = true
	for i, in := range inputs {
		r0 := parseSrc(in, false)
		if !r0.accepted() {
			return "", "", 0 // the generated session does not parse: not a case
		}
		re := parseSrc(expected[i], false)
		if !re.accepted() {
			return "", "", 0
		}
		before := canon.Dump(r0.prog, canon.Opts{})
		s.DefineMacros(r0.prog)
		var ex ast.Node = r0.prog
		if s.NumMacros() > 0 {
			ex = s.ExpandMacros(r0.prog)
		}
		if out.Len() > 0 {
			return "output-during-expansion", fmt.Sprintf("input %d: %q was written while defining/expanding macros", i, out.String()), 1
		}
		got := canon.Dump(ex, canon.Opts{})
		want := canon.Dump(re.prog, canon.Opts{})
		if got != before {
			expanded++
		}
		if got != want {
			return "tree-diff", fmt.Sprintf("input %d %q:\n  expanded  %s\n  by hand   %s", i, clip(in), got, want), 1
		}
		// the expanded tree prints and re-parses to itself
		if k, d := roundTrip(ex, false); k != "" && !strings.Contains(d, "comment") {
			if k2, _ := roundTrip(re.prog, false); k2 == "" {
				return "expanded-print", fmt.Sprintf("input %d: the expanded tree does not round-trip through the printer (%s) while the hand-substituted one does: %s", i, k, clip(d)), 1
			}
		}
	}
	// evaluation: session with macros vs hand-substituted session
	a := runSession(inputs, sessCfg{maxDepth: 300}, 3*time.Second)
	b := runSession(expected, sessCfg{maxDepth: 300}, 3*time.Second)
	if anyTimeout(a) || anyTimeout(b) {
		return "", "", expanded
	}
	if i := diffSessions(a, b); i >= 0 {
		return "eval-diff", fmt.Sprintf("input %d %q: with macros %s; hand-substituted %s", i, clip(inputs[i]), outStr(a[i]), outStr(b[i])), 1
	}
	return "", "", expanded
}

func (p c13) one(c *fw.Ctx, inputs, expected []string) {
	c.Eval(1)
	kind, detail, expanded := p.check(c, inputs, expected)
	if expanded > 0 {
		c.ShapeH(fnv64(strings.Join(inputs, "\x01")))
		c.Count("expansions_observed", int64(expanded))
	}
	if kind != "" {
		c.Violate(kind, "macro:"+kind, c13Case{Inputs: inputs, Expected: expected}, detail)
	}
}

func (p c13) RunBatch(c *fw.Ctx) {
	InitGrol(nil)
	n := c.Pick(1200, 40000)
	for i := 0; i < n; i++ {
		in, ex, _ := p.session(c)
		c.Begin(c13Case{Inputs: in, Expected: ex})
		p.one(c, in, ex)
		if i == 0 {
			c.Sample(c13Case{Inputs: in, Expected: ex})
		}
	}
}

func (p c13) ReplayCase(c *fw.Ctx, input json.RawMessage) {
	InitGrol(nil)
	var cs c13Case
	if err := json.Unmarshal(input, &cs); err != nil || len(cs.Inputs) != len(cs.Expected) {
		return
	}
	p.one(c, cs.Inputs, cs.Expected)
}
