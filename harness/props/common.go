// Package props holds one runtime monitor per property.
package props

import (
	"io"
	"os"
	"runtime/debug"
	"sync"

	"fortio.org/log"
	"grol.io/grol/extensions"
)

var initOnce sync.Once

// InitGrol configures the process-global parts of grol once: quiet logging and the extension
// table (restricted IO unless a property's child process asks otherwise).
func InitGrol(cfg *extensions.Config) {
	initOnce.Do(func() {
		debug.SetMemoryLimit(1 << 30) // like GOMEMLIMIT=1GiB: the memory guard of the interpreter needs a limit to work
		log.SetOutput(io.Discard)
		log.SetLogLevelQuiet(log.Critical)
		log.Config.ConsoleColor = false
		if cfg == nil {
			cfg = &extensions.Config{HasLoad: false, HasSave: false, UnrestrictedIOs: false}
		}
		if err := extensions.Init(cfg); err != nil {
			panic(err)
		}
	})
}

// Scratch makes the worker's working directory a private scratch directory under /verif/.build
// (removed by the driver with the run directory when possible).
func Scratch(tag string) string {
	root := os.Getenv("VERIF_ROOT")
	if root == "" {
		root = "/verif"
	}
	d, err := os.MkdirTemp(root+"/.build", "scratch-"+tag+"-")
	if err != nil {
		panic(err)
	}
	if err := os.Chdir(d); err != nil {
		panic(err)
	}
	return d
}

// InitGrolNoMemLimit configures grol like InitGrol but leaves the memory limit to GOMEMLIMIT (child processes
// whose memory behaviour is what is being observed).
func InitGrolNoMemLimit() {
	initOnce.Do(func() {
		log.SetOutput(io.Discard)
		log.SetLogLevelQuiet(log.Critical)
		if err := extensions.Init(&extensions.Config{}); err != nil {
			panic(err)
		}
	})
}

// InitGrolWith configures grol with an explicit extension configuration (child processes of C17).
func InitGrolWith(cfg *extensions.Config) {
	log.SetOutput(io.Discard)
	log.SetLogLevelQuiet(log.Critical)
	debug.SetMemoryLimit(1 << 30)
	if err := extensions.Init(cfg); err != nil {
		panic(err)
	}
}
