package props

import (
	"encoding/json"
	"fmt"
	"math"
	"strings"
	"time"

	"grol.io/grol/object"
	"verif/fw"
	"verif/gt"
)

// C11: maps behave as finite maps in key order, whatever their history.

type c11 struct{ fw.Base }

func init() { fw.Register(c11{}) }

func (c11) ID() string { return "C11" }
func (c11) Rule() string {
	return "API level: every sequence of <=5 (thorough: <=6) operations from {Set k v for 9 keys (2 ints, a float equal to one int, another float, string, bool, nil, arrays of length 1 and 3: 8 distinct under the order), Delete k, Append a 1/3/5-pair map, Rest, Range(0,2), Range(1,4)} " +
		"applied to object.Map starting from the empty map, each rebuilt from scratch and compared after the last operation with a sorted-unique-key reference map on Len, Get of every universe key, Inspect, First/Rest iteration order and Equals with a freshly built equal map " +
		"(crosses the 4-pair threshold both ways); random sequences of 50..300 operations over 20 keys with intermediate handles re-checked (first for keys that are repeated or out of order, whatever else happened to them). Language level: random sequences rendered as grol source on one variable (literals in random pair order, m[k]=v, m.k=v, del, +, rest, slices) " +
		"observed through len, m[k], print, for kv = m, ==. non-trivial = sequence with >=2 operations that changed the map; distinct = distinct operation sequences."
}
func (c11) Exhaustive(string) bool { return true }
func (c11) NumBatches(tier string) int {
	if tier == "thorough" {
		return 64
	}
	return 16
}
func (c11) Assumptions() []string {
	return []string{"the reference comparator (harness/gt Cmp) is written from the documented order, not taken from object.Cmp",
		"maps are rebuilt from scratch for every enumerated sequence, so in-place updates of large maps (C06's finding) cannot leak between sequences; older handles are re-checked only in the random part and attributed to that finding"}
}

type c11Op struct {
	Kind string `json:"op"` // set del append rest range
	K    int    `json:"k,omitempty"`
	V    int64  `json:"v,omitempty"`
	A    int    `json:"a,omitempty"` // append map size / range index
	B    int    `json:"b,omitempty"`
}

type c11Case struct {
	Ops  []c11Op  `json:"ops,omitempty"`
	Lang []string `json:"inputs,omitempty"`
	Big  bool     `json:"big_universe,omitempty"`
}

func c11Key(i int) (object.Object, gt.Val) {
	switch i {
	case 0: // a negative integer and (key 3) a float between it and the integer below: same integer part, negative fraction
		return object.Integer{Value: -1}, int64(-1)
	case 1:
		return object.Integer{Value: 2}, int64(2)
	case 2:
		return object.Float{Value: 2.0}, float64(2)
	case 3:
		return object.Float{Value: -1.5}, -1.5
	case 4:
		return object.String{Value: "a"}, "a"
	case 5:
		return object.TRUE, true
	case 6:
		return object.NULL, gt.Nil{}
	case 7:
		return object.NewArray([]object.Object{object.Integer{Value: 1}}), &gt.Arr{E: []gt.Val{int64(1)}}
	case 8: // a second array key whose length differs by two from the first one
		return object.NewArray([]object.Object{object.Integer{Value: 1}, object.Integer{Value: 2}, object.Integer{Value: 3}}),
			&gt.Arr{E: []gt.Val{int64(1), int64(2), int64(3)}}
	}
	// big universe: integers further apart than 2^63 (a comparison by subtraction wraps), then strings
	far := []int64{math.MinInt64, -7000000000000000000, -5000000000000000000, -2, 5000000000000000000, 7000000000000000000, math.MaxInt64}
	if i-9 < len(far) {
		return object.Integer{Value: far[i-9]}, far[i-9]
	}
	s := fmt.Sprintf("key%02d", i)
	return object.String{Value: s}, s
}

func c11AppendMap(size int) (object.Map, *gt.Map) {
	m := object.NewMap()
	r := &gt.Map{}
	keys := []int{1, 4, 3, 6, 0}
	for i := 0; i < size; i++ {
		ko, kr := c11Key(keys[i])
		m = m.Set(ko, object.Integer{Value: int64(100 + i)})
		r = gt.MapSet(r, kr, int64(100+i))
	}
	return m, r
}

var c11EnumOps = func() []c11Op {
	var ops []c11Op
	for k := 0; k < 9; k++ {
		ops = append(ops, c11Op{Kind: "set", K: k})
	}
	for k := 0; k < 9; k++ {
		ops = append(ops, c11Op{Kind: "del", K: k})
	}
	for _, sz := range []int{1, 3, 5} {
		ops = append(ops, c11Op{Kind: "append", A: sz})
	}
	ops = append(ops, c11Op{Kind: "rest"}, c11Op{Kind: "range", A: 0, B: 2}, c11Op{Kind: "range", A: 1, B: 4})
	return ops
}()

// c11Apply applies one op to both; ok=false when the op is not applicable (e.g. rest of a 0/1 element map).
func c11Apply(m object.Map, r *gt.Map, op c11Op, step int) (object.Map, *gt.Map, bool, string) {
	switch op.Kind {
	case "set":
		ko, kr := c11Key(op.K)
		v := op.V
		if v == 0 {
			v = int64(step + 1)
		}
		return m.Set(ko, object.Integer{Value: v}), gt.MapSet(r, kr, v), true, ""
	case "del":
		ko, kr := c11Key(op.K)
		nm, changed := m.Delete(ko)
		nr, rchanged := gt.MapDel(r, kr)
		if changed != rchanged {
			return nm, nr, true, fmt.Sprintf("Delete reported changed=%v, reference %v", changed, rchanged)
		}
		return nm, nr, true, ""
	case "append":
		am, ar := c11AppendMap(op.A)
		out := m.Append(am)
		nr := r
		for _, p := range ar.P {
			nr = gt.MapSet(nr, p.K, p.V)
		}
		return out, nr, true, ""
	case "rest":
		if len(r.P) <= 1 {
			res := m.Rest()
			if res.Type() != object.NIL {
				return m, r, false, fmt.Sprintf("Rest of a %d-pair map is %s, expected nil", len(r.P), res.Inspect())
			}
			return m, r, false, ""
		}
		res, ok := m.Rest().(object.Map)
		if !ok {
			return m, r, true, "Rest did not return a map"
		}
		if msg := c11PartVsWhole(res, m, len(r.P)-1, len(r.P)); msg != "" {
			return m, r, true, "Rest: " + msg
		}
		return res, &gt.Map{P: append([]gt.KV{}, r.P[1:]...)}, true, ""
	case "range":
		lo, hi := op.A, op.B
		if hi > len(r.P) {
			hi = len(r.P)
		}
		if lo > hi {
			lo = hi
		}
		res, ok := object.Range(m, int64(lo), int64(hi)).(object.Map)
		if !ok {
			return m, r, true, fmt.Sprintf("Range(%d,%d) did not return a map", lo, hi)
		}
		if msg := c11PartVsWhole(res, m, hi-lo, len(r.P)); msg != "" {
			return m, r, true, fmt.Sprintf("Range(%d,%d): %s", lo, hi, msg)
		}
		return res, &gt.Map{P: append([]gt.KV{}, r.P[lo:hi]...)}, true, ""
	}
	return m, r, false, "unknown op"
}

// c11PartVsWhole: a part of a map with fewer pairs is another map (Equals and Cmp see it, both ways round, also one level down).
func c11PartVsWhole(part, whole object.Map, nPart, nWhole int) string {
	if nPart == nWhole {
		return ""
	}
	if object.Equals(part, whole) || object.Equals(whole, part) || object.Cmp(part, whole) == 0 || object.Cmp(whole, part) == 0 {
		return fmt.Sprintf("a part with %d of the %d pairs compares equal to the whole map: %s vs %s", nPart, nWhole, part.Inspect(), whole.Inspect())
	}
	a, b := object.NewArray([]object.Object{part}), object.NewArray([]object.Object{whole})
	if object.Equals(a, b) || object.Cmp(a, b) == 0 {
		return fmt.Sprintf("[part] compares equal to [whole] for a part with %d of the %d pairs", nPart, nWhole)
	}
	return ""
}

// c11Observe compares every observation of a real map with the reference.
func c11Observe(m object.Map, r *gt.Map, universe int) string {
	if m.Len() != len(r.P) {
		return fmt.Sprintf("Len=%d, reference %d (%s vs %s)", m.Len(), len(r.P), m.Inspect(), gt.Inspect(r))
	}
	if got, want := m.Inspect(), gt.Inspect(r); got != want {
		return fmt.Sprintf("Inspect=%s, reference %s", got, want)
	}
	for k := 0; k < universe; k++ {
		ko, kr := c11Key(k)
		gv, gok := m.Get(ko)
		rv, rok := gt.MapGet(r, kr)
		if gok != rok || (gok && !gt.Same(toVal(gv), rv)) {
			return fmt.Sprintf("Get(%s)=%s,%v reference %s,%v in %s", ko.Inspect(), gv.Inspect(), gok, gt.Inspect(rv), rok, m.Inspect())
		}
	}
	// First/Rest iteration order
	var cur object.Object = m
	for i := 0; i < len(r.P); i++ {
		f := object.First(cur)
		fm, ok := f.(object.Map)
		if !ok {
			return fmt.Sprintf("First at position %d is %s", i, f.Inspect())
		}
		k, _ := fm.Get(object.String{Value: "key"})
		v, _ := fm.Get(object.String{Value: "value"})
		if !gt.Same(toVal(k), r.P[i].K) || !gt.Same(toVal(v), r.P[i].V) {
			return fmt.Sprintf("iteration position %d gives %s, reference %s:%s", i, f.Inspect(), gt.Inspect(r.P[i].K), gt.Inspect(r.P[i].V))
		}
		cur = object.Rest(cur)
	}
	if len(r.P) > 1 || cur.Type() != object.NIL {
		if cur.Type() != object.NIL && object.Len(cur) != 0 {
			return "iteration does not end after the last pair: " + cur.Inspect()
		}
	}
	// equality with a freshly built equal map (built in reverse order)
	fresh := object.NewMap()
	for i := len(r.P) - 1; i >= 0; i-- {
		fresh = fresh.Set(c11FromVal(r.P[i].K), c11FromVal(r.P[i].V))
	}
	if !object.Equals(m, fresh) || !object.Equals(fresh, m) || object.Cmp(m, fresh) != 0 {
		return fmt.Sprintf("not Equals to a freshly built equal map: %s vs %s", m.Inspect(), fresh.Inspect())
	}
	return ""
}

func c11FromVal(v gt.Val) object.Object {
	switch x := v.(type) {
	case int64:
		return object.Integer{Value: x}
	case float64:
		return object.Float{Value: x}
	case bool:
		return object.NativeBoolToBooleanObject(x)
	case string:
		return object.String{Value: x}
	case gt.Nil:
		return object.NULL
	case *gt.Arr:
		els := make([]object.Object, len(x.E))
		for i, e := range x.E {
			els[i] = c11FromVal(e)
		}
		return object.NewArray(els)
	}
	return object.NULL
}

func (p c11) runOps(c *fw.Ctx, ops []c11Op, universe int, checkEvery bool) {
	c.Eval(1)
	kind, detail := func() (kind, detail string) {
		defer func() {
			if r := recover(); r != nil {
				kind, detail = "panic", fmt.Sprint(r)
			}
		}()
		m := object.NewMap()
		r := &gt.Map{}
		changes := 0
		type handle struct {
			m object.Map
			r *gt.Map
		}
		var handles []handle
		for i, op := range ops {
			var msg string
			var ok bool
			before := len(r.P)
			m, r, ok, msg = c11Apply(m, r, op, i)
			if msg != "" {
				return "op-result", fmt.Sprintf("op %d %+v: %s", i, op, msg)
			}
			if ok && (len(r.P) != before || op.Kind == "set") {
				changes++
			}
			if checkEvery || i == len(ops)-1 {
				if d := c11Observe(m, r, universe); d != "" {
					return "observation", fmt.Sprintf("after op %d %+v: %s", i, op, d)
				}
			}
			if checkEvery && i%17 == 0 {
				handles = append(handles, handle{m, r})
			}
		}
		for _, h := range handles {
			// whatever happened to it, a map value holds its keys once and in order
			ks := object.Elements(h.m)
			for j := 1; j < len(ks); j++ {
				if object.Cmp(ks[j-1], ks[j]) >= 0 {
					return "old-handle-corrupt", fmt.Sprintf("a map value kept from earlier is not a map any more: keys %s and %s at positions %d, %d of %s", ks[j-1].Inspect(), ks[j].Inspect(), j-1, j, clip(h.m.Inspect()))
				}
			}
			if d := c11Observe(h.m, h.r, universe); d != "" {
				return "old-handle", "a map value kept from earlier changed later: " + d
			}
		}
		if changes >= 2 {
			c.ShapeH(fnv64(fmt.Sprint(ops)))
		}
		return "", ""
	}()
	if kind != "" {
		sig := "api:" + kind
		if kind == "old-handle" {
			sig = "api:old-handle:big"
		}
		c.Violate(kind, sig, c11Case{Ops: ops, Big: universe > 8}, detail)
	}
}

// ---- language level ----

func c11KeySrc(i int) string {
	return []string{"1", "2", "2.0", "2.5", `"a"`, "true", "nil", "[1]", "(-1)", "(-1.5)", "[1, 2, 3]", "0.5"}[i]
}

func (p c11) langSession(c *fw.Ctx) {
	r := c.Rng
	c.Eval(1)
	ref := &gt.Map{}
	refNil := false
	var inputs []string
	// literal with pairs in random order (later duplicates win)
	n := r.IntN(8)
	var pairs []string
	for i := 0; i < n; i++ {
		k := r.IntN(12)
		v := int64(r.IntN(50))
		pairs = append(pairs, fmt.Sprintf("%s: %d", c11KeySrc(k), v))
		ref = gt.MapSet(ref, c11LangKey(k), v)
	}
	inputs = append(inputs, "m = {"+strings.Join(pairs, ", ")+"}")
	ss := newSession(false)
	ss.eval(inputs[0], time.Second)
	steps := 3 + r.IntN(15)
	for s := 0; s < steps; s++ {
		k := r.IntN(12)
		v := int64(100 + s)
		var in string
		switch r.IntN(8) {
		case 0, 1:
			in = fmt.Sprintf("m[%s] = %d", c11KeySrc(k), v)
			ref = gt.MapSet(ref, c11LangKey(k), v)
		case 2:
			in = fmt.Sprintf("m.zz = %d", v)
			ref = gt.MapSet(ref, "zz", v)
		case 3:
			in = fmt.Sprintf("del(m[%s])", c11KeySrc(k))
			ref, _ = gt.MapDel(ref, c11LangKey(k))
		case 4:
			k2 := r.IntN(12)
			in = fmt.Sprintf("m = m + {%s: %d, %s: %d}", c11KeySrc(k), v, c11KeySrc(k2), v+1)
			ref = gt.MapSet(gt.MapSet(ref, c11LangKey(k), v), c11LangKey(k2), v+1)
		case 5:
			if len(ref.P) > 1 {
				in = "m = rest(m)"
				ref = &gt.Map{P: append([]gt.KV{}, ref.P[1:]...)}
			} else {
				continue
			}
		case 6:
			lo := r.IntN(3)
			hi := lo + r.IntN(6)
			in = fmt.Sprintf("m = m[%d:%d]", lo, hi)
			l, h := lo, hi
			if h > len(ref.P) {
				h = len(ref.P)
			}
			if l > h {
				l = h
			}
			ref = &gt.Map{P: append([]gt.KV{}, ref.P[l:h]...)}
		default:
			in = "m2 = m; m = m2"
		}
		inputs = append(inputs, in)
		o := ss.eval(in, time.Second)
		if o.isErr {
			c.Violate("lang-error", "lang:error", c11Case{Lang: inputs}, fmt.Sprintf("%q failed: %s", in, outStr(o)))
			return
		}
		_ = refNil
		// observations
		obs := ss.eval("m", time.Second)
		if obs.isErr || !gt.Same(obs.val, ref) {
			c.Violate("lang-value", "lang:value", c11Case{Lang: inputs}, fmt.Sprintf("after %q m is %s, reference %s", in, outStr(obs), gt.Inspect(ref)))
			return
		}
		pr := ss.eval("print(m, len(m)); for kv = m {print(\"|\", kv.key, kv.value)}", time.Second)
		var want strings.Builder
		want.WriteString(gt.Inspect(ref) + " " + fmt.Sprint(len(ref.P)))
		for _, p2 := range ref.P {
			want.WriteString("| " + c11Printed(p2.K) + " " + c11Printed(p2.V))
		}
		if pr.printed != want.String() {
			c.Violate("lang-print", "lang:print", c11Case{Lang: inputs}, fmt.Sprintf("after %q printing/iterating gives %q, reference %q", in, pr.printed, want.String()))
			return
		}
		for q := 0; q < 12; q++ {
			g := ss.eval("m["+c11KeySrc(q)+"]", time.Second)
			w, _ := gt.MapGet(ref, c11LangKey(q))
			if g.isErr || !gt.Same(g.val, w) {
				c.Violate("lang-get", "lang:get", c11Case{Lang: inputs}, fmt.Sprintf("after %q m[%s] is %s, reference %s", in, c11KeySrc(q), outStr(g), gt.Inspect(w)))
				return
			}
		}
		// equality with a literal written in reverse order
		var lit []string
		for i := len(ref.P) - 1; i >= 0; i-- {
			lit = append(lit, gt.Inspect(ref.P[i].K)+": "+gt.Inspect(ref.P[i].V))
		}
		eq := ss.eval("m == {"+strings.Join(lit, ", ")+"}", time.Second)
		if eq.isErr || eq.val != true {
			c.Violate("lang-eq", "lang:eq", c11Case{Lang: inputs}, fmt.Sprintf("after %q m == {%s} is %s", in, strings.Join(lit, ", "), outStr(eq)))
			return
		}
	}
	c.ShapeH(fnv64(strings.Join(inputs, ";")))
}

func c11Printed(v gt.Val) string {
	if s, ok := v.(string); ok {
		return s
	}
	return gt.Inspect(v)
}

func c11LangKey(i int) gt.Val {
	switch i {
	case 0:
		return int64(1)
	case 1:
		return int64(2)
	case 2:
		return float64(2)
	case 3:
		return 2.5
	case 4:
		return "a"
	case 5:
		return true
	case 6:
		return gt.Nil{}
	case 7:
		return &gt.Arr{E: []gt.Val{int64(1)}}
	case 8:
		return int64(-1)
	case 9:
		return -1.5
	case 10:
		return &gt.Arr{E: []gt.Val{int64(1), int64(2), int64(3)}}
	}
	return 0.5
}

func (p c11) RunBatch(c *fw.Ctx) {
	InitGrol(nil)
	maxLen := c.Pick(4, 6)
	nOps := len(c11EnumOps)
	// exhaustive enumeration of sequences up to maxLen, partitioned by index
	idx := 0
	seq := make([]c11Op, 0, 8)
	var rec func(d int)
	rec = func(d int) {
		if d > 0 {
			if idx%c.NBatches == c.Batch {
				p.runOps(c, seq, 9, false)
				c.Count("enumerated_sequences", 1)
			}
			idx++
		}
		if d == maxLen {
			return
		}
		for i := 0; i < nOps; i++ {
			seq = append(seq, c11EnumOps[i])
			rec(d + 1)
			seq = seq[:len(seq)-1]
		}
	}
	c.Begin(map[string]any{"phase": "enumeration"})
	rec(0)
	c.Sample(map[string]any{"enumerated_sequence": []c11Op{{Kind: "set", K: 1}, {Kind: "set", K: 2}, {Kind: "append", A: 5}, {Kind: "del", K: 4}, {Kind: "rest"}}})
	// random long sequences over 20 keys
	n := c.Pick(300, 8000)
	for i := 0; i < n; i++ {
		l := 50 + c.Rng.IntN(251)
		ops := make([]c11Op, l)
		for j := range ops {
			switch c.Rng.IntN(10) {
			case 0, 1, 2, 3, 4:
				ops[j] = c11Op{Kind: "set", K: c.Rng.IntN(20), V: int64(1 + c.Rng.IntN(1000))}
			case 5, 6, 7:
				ops[j] = c11Op{Kind: "del", K: c.Rng.IntN(20)}
			case 8:
				ops[j] = c11Op{Kind: "append", A: []int{1, 3, 5}[c.Rng.IntN(3)]}
			default:
				if c.Rng.IntN(2) == 0 {
					ops[j] = c11Op{Kind: "rest"}
				} else {
					a := c.Rng.IntN(3)
					ops[j] = c11Op{Kind: "range", A: a, B: a + 2 + c.Rng.IntN(15)}
				}
			}
		}
		c.Begin(c11Case{Ops: ops, Big: true})
		p.runOps(c, ops, 20, true)
		c.Count("random_sequences", 1)
	}
	// language level
	m := c.Pick(400, 8000)
	for i := 0; i < m; i++ {
		c.Begin(map[string]any{"phase": "language", "i": i})
		p.langSession(c)
		c.Count("language_sessions", 1)
	}
}

func (p c11) ReplayCase(c *fw.Ctx, input json.RawMessage) {
	InitGrol(nil)
	var cs c11Case
	if err := json.Unmarshal(input, &cs); err != nil {
		return
	}
	if len(cs.Ops) > 0 {
		u := 9
		if cs.Big {
			u = 20
		}
		p.runOps(c, cs.Ops, u, cs.Big)
		return
	}
	if len(cs.Lang) > 0 {
		// re-run the inputs and re-derive nothing: compare insertion-order independence through a rebuilt literal
		ss := newSession(false)
		for _, in := range cs.Lang {
			ss.eval(in, time.Second)
		}
		a := ss.eval("m", time.Second)
		b := ss.eval("m2 = {}; for kv = m {m2[kv.key] = kv.value}; m2", time.Second)
		c.Eval(1)
		if a.isErr || b.isErr || !gt.Same(a.val, b.val) {
			c.Violate("lang-value", "lang:value", cs, fmt.Sprintf("m is %s but rebuilding it pair by pair gives %s", outStr(a), outStr(b)))
		}
	}
}
