package props

import (
	"bytes"
	"context"
	"encoding/json"
	"fmt"
	"os"
	"os/exec"
	"sort"
	"strings"
	"time"

	"grol.io/grol/eval"
	"grol.io/grol/extensions"
	"grol.io/grol/object"
	"verif/fw"
)

// Extension sweep of C04: results that depend on the state of the world outside the interpreter (standard input, named
// images, files, the clock) are never served from the cache. The world is per process, so every run is a fresh child
// process with its own standard input and working directory.
//
// Each child defines one wrapper function per (extension, argument shape), calls every wrapper, changes the world
// (reads standard input to its end, draws on images, saves files, sleeps), calls every wrapper again, changes the world
// again and calls them a third time. Three children run in the order cache-off, cache-on, cache-off: a call whose
// three answers differ between the two cache-off runs is non-deterministic (clock, random) and is not compared; every
// other call must answer the same with the cache on.

func init() {
	fw.SubCommands["c04child"] = c04Child
}

var c04SweepShapes = []string{"", `"ia"`, "1", `"ia", 0, 0`, `"a", 1`, `"c04f"`, "0.001", `"%v", 1`, "[3, 1, 2]", `{"a": 1}`, `"ia", "ib"`}

// c04World are the inputs that change what extensions can observe, run between the rounds of wrapper calls.
var c04World = [][]string{
	{`read()`, `read()`, `read()`, `read()`, `image.new("ia", 3, 3)`, `image.set("ia", 0, 0, [10, 20, 30])`, `image.new("ib", 3, 3)`, `wq = 5; save("c04f")`, `sleep(0.002)`},
	{`image.set("ia", 0, 0, [200, 100, 50])`, `image.set("ib", 1, 1, [1, 2, 3])`, `image.add("ia", "ib")`, `wq = 6; wz = 1; save("c04f")`, `image.new("ia", 5, 2)`, `sleep(0.002)`},
}

func c04SweepNames() []string {
	exts := object.ExtraFunctions()
	names := make([]string, 0, len(exts))
	for name := range exts {
		switch name {
		case "exec", "run", "verif_panic", "verif_rtpanic", "verif_tick", "sleep":
			continue
		}
		names = append(names, name)
	}
	sort.Strings(names)
	return names
}

// c04Child: verifd c04child <cacheOff 0|1> [only-extension]; prints one JSON array of answers.
func c04Child(args []string) int {
	if len(args) < 1 {
		return 3
	}
	InitGrolWith(&extensions.Config{HasLoad: true, HasSave: true, UnrestrictedIOs: false})
	registerHarnessExtensions()
	eval.VerifCacheDisabled = args[0] == "1"
	names := c04SweepNames()
	if len(args) > 1 {
		names = []string{args[1]}
	}
	ss := newSession(false)
	type wrap struct{ fn, call string }
	var wraps []wrap
	for i, name := range names {
		for j, sh := range c04SweepShapes {
			fn := fmt.Sprintf("w%d_%d", i, j)
			call := name + "(" + sh + ")"
			ss.eval("func "+fn+"() {"+call+"}", time.Second)
			wraps = append(wraps, wrap{fn, call})
		}
	}
	var answers [][2]string
	round := func() {
		for _, w := range wraps {
			o := ss.eval(w.fn+"()", 5*time.Second)
			a := "value " + valStr(o.val)
			if o.isErr {
				a = "error"
			}
			if o.timedOut {
				a = "timeout"
			}
			answers = append(answers, [2]string{w.call, a + " printed " + o.printed})
		}
	}
	round()
	for _, world := range c04World {
		for _, in := range world {
			ss.eval(in, 5*time.Second)
		}
		round()
	}
	jb, _ := json.Marshal(answers)
	fmt.Println("C04ANSWERS " + string(jb))
	return 0
}

type c04SweepCase struct {
	Check string `json:"check"`
	Ext   string `json:"extension,omitempty"`
}

func (p c04) sweep(c *fw.Ctx, only string) {
	root := os.Getenv("VERIF_ROOT")
	if root == "" {
		root = "/verif"
	}
	exe, _ := os.Executable()
	runChild := func(cacheOff bool) ([][2]string, string) {
		dir, err := os.MkdirTemp(root+"/.build", "scratch-c04-")
		if err != nil {
			return nil, err.Error()
		}
		defer os.RemoveAll(dir)
		args := []string{"c04child", map[bool]string{false: "0", true: "1"}[cacheOff]}
		if only != "" {
			args = append(args, only)
		}
		ctx, cancel := context.WithTimeout(context.Background(), 10*time.Minute)
		defer cancel()
		cmd := exec.CommandContext(ctx, exe, args...)
		cmd.Dir = dir
		cmd.Stdin = strings.NewReader("first line\nsecond line\n")
		var out bytes.Buffer
		cmd.Stdout = &out
		cmd.Stderr = &out
		err = cmd.Run()
		for _, line := range strings.Split(out.String(), "\n") {
			if strings.HasPrefix(line, "C04ANSWERS ") {
				var a [][2]string
				if json.Unmarshal([]byte(strings.TrimPrefix(line, "C04ANSWERS ")), &a) == nil {
					return a, ""
				}
			}
		}
		return nil, fmt.Sprintf("%v: %s", err, clipTail(out.String(), 400))
	}
	cs := c04SweepCase{Check: "extension-sweep", Ext: only}
	c.Begin(cs)
	off1, e1 := runChild(true)
	on, e2 := runChild(false)
	off2, e3 := runChild(true)
	if off1 == nil || on == nil || off2 == nil || len(off1) != len(on) || len(off1) != len(off2) {
		c.Count("sweep_child_failed", 1)
		c.Violate("sweep-child-failed", "sweep:child-failed", cs, "a child process of the extension sweep did not answer: "+e1+" "+e2+" "+e3)
		return
	}
	n := len(off1) / (len(c04World) + 1)
	for i := 0; i < n; i++ {
		det := true
		var a, b []string
		for r := 0; r <= len(c04World); r++ {
			k := r*n + i
			if off1[k][1] != off2[k][1] {
				det = false
			}
			a = append(a, off1[k][1])
			b = append(b, on[k][1])
		}
		c.Eval(1)
		if !det {
			c.Count("sweep_nondeterministic_calls", 1)
			continue
		}
		c.Count("sweep_calls_compared", 1)
		changes := a[0] != a[1] || a[1] != a[2]
		if changes {
			c.Count("sweep_calls_answer_changes_with_world", 1)
			c.ShapeH(fnv64("sweep/" + off1[i][0]))
		}
		if strings.Join(a, "\x00") != strings.Join(b, "\x00") {
			ext := off1[i][0]
			if j := strings.IndexByte(ext, '('); j > 0 {
				ext = ext[:j]
			}
			c.Violate("stale-extension-result", "sweep:stale-extension-result:"+ext, c04SweepCase{Check: "extension-sweep", Ext: ext},
				fmt.Sprintf("func w() {%s} called before and after the world changed (standard input read to its end, images drawn on, files saved, time passed): without the cache the three calls answer %q, with the cache %q",
					off1[i][0], a, b))
		}
	}
}
