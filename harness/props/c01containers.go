package props

import (
	"verif/fw"
	"verif/gt"
)

// Container operands of the enumerated operator table (round 8: the order of two maps of the same size is decided
// pair by pair — key, value, next key — which only shows when an earlier value and a later key disagree).

func c01MapNode(kv ...gt.Val) *gt.Node {
	n := &gt.Node{K: gt.KMap}
	for _, v := range kv {
		n.Kids = append(n.Kids, c01ValNode(v))
	}
	return n
}

// c01ValNode: literal node of a value that may itself be an array or a map node.
func c01ValNode(v gt.Val) *gt.Node {
	if n, ok := v.(*gt.Node); ok {
		return n
	}
	return c01Node(v)
}

func c01Containers() []*gt.Node {
	i := func(n int) gt.Val { return int64(n) }
	arr := func(v ...gt.Val) *gt.Node {
		els := make([]*gt.Node, len(v))
		for k, e := range v {
			els[k] = c01ValNode(e)
		}
		return gt.MkArr(els...)
	}
	return []*gt.Node{
		c01MapNode(), c01MapNode(i(1), i(5)), c01MapNode(i(1), i(0)), c01MapNode(i(2), i(0)),
		c01MapNode(i(1), i(5), i(2), i(0)), c01MapNode(i(1), i(0), i(3), i(0)), c01MapNode(i(1), i(0), i(2), i(0)), c01MapNode(i(1), i(5), i(3), i(0)),
		c01MapNode(i(1), i(0), i(2), i(9)), c01MapNode(i(1), i(9), i(2), i(0), i(3), i(1)), c01MapNode(i(1), i(0), i(2), i(9), i(4), i(0)),
		c01MapNode("a", i(1)), c01MapNode("a", 1.0), c01MapNode("a", i(2), "b", i(0)), c01MapNode("a", i(0), "c", i(0)),
		c01MapNode(i(1), arr(i(2)), i(2), i(0)), c01MapNode(i(1), arr(i(1)), i(3), i(0)),
		c01MapNode(i(1), i(1), i(2), i(2), i(3), i(3), i(4), i(4), i(5), i(9), i(6), i(0)), c01MapNode(i(1), i(1), i(2), i(2), i(3), i(3), i(4), i(4), i(5), i(0), i(7), i(0)),
		arr(), arr(i(1)), arr(i(1), i(2)), arr(i(2), i(1)), arr(i(1), i(2), i(3)), arr(i(3)), arr(1.0, i(2)), arr(arr(i(1)), i(0)), arr(arr(i(0)), i(1)),
		arr(c01MapNode(i(1), i(5), i(2), i(0))), arr(c01MapNode(i(1), i(0), i(3), i(0))),
		arr(i(1), i(2), i(3), i(4), i(5), i(6), i(7), i(8), i(9), i(10)), arr(i(1), i(2), i(3), i(4), i(5), i(6), i(7), i(8), i(9), i(0), i(11)),
	}
}

var c01ContainerOps = []string{"==", "!=", "<", "<=", ">", ">=", "+"}

// containerTable evaluates every comparison (and +) on every ordered pair of container operands, directly, as the two
// keys of a map literal (whose printed form shows the order) and through min/max/sort.
func (p c01) containerTable(c *fw.Ctx) {
	ops := c01Containers()
	idx := 0
	show := func(e *gt.Node) *gt.Node {
		failed := &gt.Node{K: gt.KDot, Kids: []*gt.Node{gt.Bi("catch", e)}, Text: "err"}
		return gt.Bi("println", failed, &gt.Node{K: gt.KIf, Kids: []*gt.Node{failed}, Body: []*gt.Node{gt.Lit(gt.Nil{})}, Else: []*gt.Node{e}, HasElse: true})
	}
	for _, a := range ops {
		for _, b := range ops {
			idx++
			if idx%c.NBatches != c.Batch {
				continue
			}
			var stmts []*gt.Node
			for _, op := range c01ContainerOps {
				stmts = append(stmts, show(gt.In(op, a, b)))
			}
			stmts = append(stmts, show(&gt.Node{K: gt.KMap, Kids: []*gt.Node{a, gt.Lit(int64(1)), b, gt.Lit(int64(2))}}))
			src := gt.Render(stmts)
			c.Begin(c01Case{Src: src})
			p.one(c, stmts, src)
			c.Count("container_table_pairs", 1)
		}
	}
}
