package props

import (
	"bytes"
	"context"
	"encoding/json"
	"fmt"
	"sort"
	"strings"

	"fortio.org/terminal"
	"grol.io/grol/eval"
	"grol.io/grol/repl"
	"grol.io/grol/trie"
	"verif/fw"
)

// C20: the completion index behaves as a set of words. Reference model: map[string]bool + sort.

type c20 struct{ fw.Base }

func init() { fw.Register(c20{}) }

func (c20) ID() string { return "C20" }
func (c20) Rule() string {
	return "insertion sequences into trie.Trie checked against a Go set: universe A = all words of length 1..3 over {a,b} " +
		"(every subset; every insertion order with a repeated insertion for subsets of <=4 words), universe B = words of length <=2 over bytes {0x00,'a',0xFF} " +
		"(every subset, every order for <=3 words), random sets of longer words sharing prefixes, and REPL sessions whose AutoComplete callback is queried " +
		"with every prefix of every defined and some undefined names. A case is one insertion sequence; it is non-trivial if it inserts >=1 word; " +
		"distinct = distinct sequences (hash of the ordered word list)."
}
func (c20) Exhaustive(string) bool { return true }
func (c20) NumBatches(tier string) int {
	if tier == "thorough" {
		return 32
	}
	return 16
}
func (c20) Assumptions() []string {
	return []string{"universes A and B are enumerated completely in both tiers; longer words and REPL sessions are sampled",
		"PrefixAll on a prefix with no match is only required to return no words (the reported length is unspecified there)"}
}

type c20Case struct {
	Words []string `json:"words"` // hex-free: words are given as Go-quoted strings in the evidence, raw here
	Q     []string `json:"queries,omitempty"`
}

func lcpLen(ws []string) int {
	if len(ws) == 0 {
		return 0
	}
	p := ws[0]
	for _, w := range ws[1:] {
		n := 0
		for n < len(p) && n < len(w) && p[n] == w[n] {
			n++
		}
		p = p[:n]
	}
	return len(p)
}

// checkTrie compares the trie built by inserting words in order with the reference set, on the
// given queries. Returns a description of the first difference or "".
func c20Check(words []string, queries []string) (kind, detail string) {
	defer func() {
		if r := recover(); r != nil {
			kind, detail = "panic", fmt.Sprint(r)
		}
	}()
	t := trie.NewTrie()
	set := map[string]bool{}
	for _, w := range words {
		t.Insert(w)
		if w != "" {
			set[w] = true
		}
	}
	for _, q := range queries {
		if got, want := t.Contains(q), set[q]; got != want {
			return "contains", fmt.Sprintf("Contains(%q)=%v want %v after inserting %q", q, got, want, words)
		}
		var want []string
		for w := range set {
			if strings.HasPrefix(w, q) {
				want = append(want, w)
			}
		}
		sort.Strings(want)
		l, got := t.PrefixAll(q)
		if len(got) != len(want) {
			return "prefixall-words", fmt.Sprintf("PrefixAll(%q) words=%q want %q after inserting %q", q, got, want, words)
		}
		for i := range got {
			if got[i] != want[i] {
				return "prefixall-words", fmt.Sprintf("PrefixAll(%q) words=%q want %q after inserting %q", q, got, want, words)
			}
		}
		if len(want) > 0 && l != lcpLen(want) {
			return "prefixall-len", fmt.Sprintf("PrefixAll(%q) len=%d want %d (words %q) after inserting %q", q, l, lcpLen(want), want, words)
		}
	}
	return "", ""
}

func allWords(alpha []byte, minL, maxL int) []string {
	var out []string
	var rec func(cur []byte)
	rec = func(cur []byte) {
		if len(cur) >= minL {
			out = append(out, string(cur))
		}
		if len(cur) == maxL {
			return
		}
		for _, a := range alpha {
			rec(append(append([]byte{}, cur...), a))
		}
	}
	rec(nil)
	sort.Strings(out)
	return out
}

func permute(ws []string, f func([]string)) {
	n := len(ws)
	idx := make([]int, n)
	for i := range idx {
		idx[i] = i
	}
	var rec func(k int)
	cur := make([]string, n)
	used := make([]bool, n)
	rec = func(k int) {
		if k == n {
			f(cur)
			return
		}
		for i := 0; i < n; i++ {
			if used[i] {
				continue
			}
			used[i] = true
			cur[k] = ws[i]
			rec(k + 1)
			used[i] = false
		}
	}
	rec(0)
}

func (p c20) run(c *fw.Ctx, words, queries []string) {
	c.Eval(1)
	if len(words) > 0 {
		c.Shape(strings.Join(words, "\x01"))
	}
	if kind, detail := c20Check(words, queries); kind != "" {
		c.Violate(kind, "trie:"+kind, c20Case{Words: fw.QuoteAll(words), Q: fw.QuoteAll(queries)}, detail)
	}
}

func (p c20) RunBatch(c *fw.Ctx) {
	uA := allWords([]byte("ab"), 1, 3)
	qA := append(allWords([]byte("ab"), 0, 3), "c", "ac", "aaaa", "abab")
	uB := allWords([]byte{0, 'a', 0xFF}, 1, 2)
	qB := append(allWords([]byte{0, 'a', 0xFF}, 0, 2), "b", "a\xFFa", "\xFF\xFF\xFF")
	c.Begin(map[string]any{"phase": "enumeration", "batch": c.Batch})
	// universe A: every subset (sorted insertion order), partitioned over batches.
	for mask := 0; mask < 1<<len(uA); mask++ {
		if mask%c.NBatches != c.Batch {
			continue
		}
		var sub []string
		for i, w := range uA {
			if mask&(1<<i) != 0 {
				sub = append(sub, w)
			}
		}
		p.run(c, sub, qA)
		c.Count("universeA_subsets", 1)
		if len(sub) > 0 && len(sub) <= 4 {
			permute(sub, func(o []string) {
				oo := append([]string{}, o...)
				p.run(c, oo, qA)
				// with a repeated insertion of the first word at the end, and of the last word first
				p.run(c, append(append([]string{}, oo...), oo[0]), qA)
				c.Count("universeA_orders", 2)
			})
		}
		if c.Batch == 0 && mask == 0x1234 {
			c.Sample(map[string]any{"universe": "A", "inserted": sub})
		}
	}
	// universe B (bytes 0 and 255)
	for mask := 0; mask < 1<<len(uB); mask++ {
		if mask%c.NBatches != c.Batch {
			continue
		}
		var sub []string
		for i, w := range uB {
			if mask&(1<<i) != 0 {
				sub = append(sub, w)
			}
		}
		p.run(c, sub, qB)
		c.Count("universeB_subsets", 1)
		if len(sub) > 0 && len(sub) <= 3 {
			permute(sub, func(o []string) {
				p.run(c, append([]string{}, o...), qB)
				c.Count("universeB_orders", 1)
			})
		}
	}
	// random longer words sharing prefixes
	nRand := c.Pick(2000, 60000)
	alpha := []byte{'a', 'b', 'c', '_', '(', ' ', 0, 0xFF, 0xC3, 'z'}
	for i := 0; i < nRand; i++ {
		n := 1 + c.Rng.IntN(12)
		var words []string
		for j := 0; j < n; j++ {
			var w []byte
			if len(words) > 0 && c.Rng.IntN(3) > 0 {
				base := words[c.Rng.IntN(len(words))]
				w = append(w, base[:c.Rng.IntN(len(base)+1)]...)
			}
			for k := c.Rng.IntN(5); k > 0; k-- {
				w = append(w, alpha[c.Rng.IntN(len(alpha))])
			}
			words = append(words, string(w)) // may be empty: inserting "" must be a no-op
		}
		qs := map[string]bool{"": true}
		for _, w := range words {
			for k := 0; k <= len(w); k++ {
				qs[w[:k]] = true
			}
			qs[w+"a"] = true
		}
		var ql []string
		for q := range qs {
			ql = append(ql, q)
		}
		sort.Strings(ql)
		c.Begin(c20Case{Words: fw.QuoteAll(words)})
		p.run(c, words, ql)
		c.Count("random_sets", 1)
		if i == 0 {
			c.Sample(map[string]any{"universe": "random", "inserted": fmt.Sprintf("%q", words)})
		}
	}
	// wide fan-out: nodes with 254, 255 and all 256 byte values as children, with and without the node being a word itself,
	// one and two levels below the root (counters that are one byte wide wrap here)
	fan := 0
	for _, prefix := range []string{"", "k", "k\x00", "\xff\xff"} {
		for _, nkids := range []int{2, 127, 128, 129, 254, 255, 256} {
			for _, self := range []bool{false, true} {
				for _, tail := range []string{"", "zz"} {
					fan++
					if fan%c.NBatches != c.Batch {
						continue
					}
					var words []string
					if self && prefix != "" {
						words = append(words, prefix)
					}
					for b := 0; b < nkids; b++ {
						words = append(words, prefix+string([]byte{byte(255 - b)})+tail) // from the top so that 255 is always there
					}
					qs := []string{"", prefix, prefix + "\xff", prefix + "\xff" + tail, prefix + "\x00", "k", "q"}
					c.Begin(c20Case{Words: fw.QuoteAll(words)})
					p.run(c, words, qs)
					c.Count("fanout_sets", 1)
				}
			}
		}
	}
	// long words: every length 1..80 of one run of letters, with the two endings the REPL appends, queried at every prefix length
	if c.Batch == 3%c.NBatches {
		base := strings.Repeat("abcdefghij", 8)
		for _, n := range []int{1, 15, 16, 17, 31, 32, 33, 34, 63, 64, 65, 80} {
			words := []string{base[:n], base[:n] + " ", base[:n] + "(", base[:n/2] + "Z"}
			var qs []string
			for k := 0; k <= n+1 && k <= len(base); k++ {
				qs = append(qs, base[:k])
			}
			c.Begin(c20Case{Words: fw.QuoteAll(words)})
			p.run(c, words, qs)
			c.Count("long_word_sets", 1)
		}
	}
	// REPL path
	p.replSessions(c, c.Pick(40, 600))
}

type c20Repl struct {
	Repl []string `json:"repl_inputs"`
}

// replSessions drives a session with a registered trie and queries the completion callback.
func (p c20) replSessions(c *fw.Ctx, n int) {
	InitGrol(nil)
	names := []string{"a", "ab", "abc", "abd", "b", "ba", "foo", "foobar", "fo", "x1", "x_1", "AB", "ABC", "A", "zed"}
	for i := 0; i < n; i++ {
		var inputs []string
		k := 1 + c.Rng.IntN(8)
		for j := 0; j < k; j++ {
			nm := names[c.Rng.IntN(len(names))]
			switch c.Rng.IntN(4) {
			case 0:
				inputs = append(inputs, fmt.Sprintf("func %s(x){x}", nm))
			case 1:
				inputs = append(inputs, fmt.Sprintf("%s = () => 1", nm))
			default:
				inputs = append(inputs, fmt.Sprintf("%s = %d", nm, j))
			}
		}
		c.Begin(c20Repl{Repl: inputs})
		p.replOne(c, inputs)
	}
}

func (p c20) replOne(c *fw.Ctx, inputs []string) {
	c.Eval(1)
	c.Shape("repl:" + strings.Join(inputs, ";"))
	c.Count("repl_sessions", 1)
	kind, detail := func() (kind, detail string) {
		defer func() {
			if r := recover(); r != nil {
				kind, detail = "panic", fmt.Sprint(r)
			}
		}()
		ac := repl.NewCompletion()
		s := eval.NewState()
		var out bytes.Buffer
		s.Out = &out
		s.RegisterTrie(ac.Trie)
		// what RegisterTrie inserted for pre-existing identifiers
		_, pre := ac.Trie.PrefixAll("")
		allowed := map[string]bool{}
		for _, w := range pre {
			allowed[w] = true
		}
		must := map[string]bool{}
		opts := repl.Options{All: true, ShowEval: true, NoColor: true}
		for _, in := range inputs {
			_, _, errs, _ := repl.EvalOne(context.Background(), s, in, &out, opts)
			if len(errs) > 0 {
				continue
			}
			// A successful top-level definition of name N makes N completable; the index may also hold
			// "N(" and "N " (which of the two depends on what N held when it was first bound).
			var nm string
			if strings.HasPrefix(in, "func ") {
				nm = in[5:strings.IndexByte(in, '(')]
			} else {
				nm = strings.TrimSpace(in[:strings.IndexByte(in, '=')])
			}
			must[nm] = true
			allowed[nm], allowed[nm+"("], allowed[nm+" "] = true, true, true
		}
		// The set the index holds, read back once through PrefixAll("") (checked against the set model above).
		_, all := ac.Trie.PrefixAll("")
		have := map[string]bool{}
		for _, w := range all {
			if have[w] {
				return "index-duplicate", fmt.Sprintf("index lists %q twice", w)
			}
			have[w] = true
			if !allowed[w] {
				return "index-undefined", fmt.Sprintf("index holds %q which was never defined", w)
			}
		}
		for nm := range must {
			if !have[nm] || !ac.Trie.Contains(nm) {
				return "index-missing", fmt.Sprintf("defined name %q is not in the index %q", nm, all)
			}
		}
		cb := ac.AutoComplete()
		var tout bytes.Buffer
		term := &terminal.Terminal{Out: &tout}
		qs := map[string]bool{"": true, "q": true, "zz": true}
		for w := range have {
			for k := 0; k <= len(w); k++ {
				qs[w[:k]] = true
			}
			qs[w+"x"] = true
		}
		for q := range qs {
			var matches []string
			for w := range have {
				if strings.HasPrefix(w, q) {
					matches = append(matches, w)
				}
			}
			sort.Strings(matches)
			nl, np, ok := cb(term, q, len(q), '\t')
			if len(matches) == 0 {
				if ok {
					return "complete-undefined", fmt.Sprintf("completion of %q returned %q but nothing defined starts with it", q, nl)
				}
				continue
			}
			if !ok {
				return "complete-missing", fmt.Sprintf("completion of %q found nothing, defined matches %q", q, matches)
			}
			if np != len(nl) || !strings.HasPrefix(nl, q) {
				return "complete-line", fmt.Sprintf("completion of %q returned %q pos %d", q, nl, np)
			}
			for _, m := range matches {
				if !strings.HasPrefix(m, nl) {
					return "complete-not-prefix", fmt.Sprintf("completion of %q returned %q which is not a prefix of defined match %q", q, nl, m)
				}
			}
			if nl != matches[0][:lcpLen(matches)] {
				return "complete-lcp", fmt.Sprintf("completion of %q returned %q, longest common prefix of %q is %q", q, nl, matches, matches[0][:lcpLen(matches)])
			}
		}
		return "", ""
	}()
	if kind != "" {
		c.Violate(kind, "repl:"+kind, c20Repl{Repl: inputs}, detail)
	}
}

func (p c20) ReplayCase(c *fw.Ctx, input json.RawMessage) {
	var r c20Repl
	if json.Unmarshal(input, &r) == nil && len(r.Repl) > 0 {
		InitGrol(nil)
		p.replOne(c, r.Repl)
		return
	}
	var cs c20Case
	if err := json.Unmarshal(input, &cs); err != nil {
		return
	}
	cs.Words = fw.UnquoteAll(cs.Words)
	qs := fw.UnquoteAll(cs.Q)
	if len(qs) == 0 {
		m := map[string]bool{"": true}
		for _, w := range cs.Words {
			for k := 0; k <= len(w); k++ {
				m[w[:k]] = true
			}
		}
		for q := range m {
			qs = append(qs, q)
		}
		sort.Strings(qs)
	}
	p.run(c, cs.Words, qs)
}
