package props

import (
	"encoding/json"
	"fmt"
	"sort"
	"strings"
	"time"

	"verif/fw"
	"verif/gt"
)

// C06: arrays and maps are values — reference-model monitor on bind/copy/mutate histories.

type c06 struct{ fw.Base }

func init() { fw.Register(c06{}) }

func (c06) ID() string { return "C06" }
func (c06) Rule() string {
	return "histories of 6..25 statements over 5 variables: bind array/map literals of sizes 0..20 (dense around the 8-element and 4-pair thresholds), b = a, pass to a function that mutates its parameter, store inside another container, " +
		"a[i] = v, m[k] = v, m.k = v, a = a + [v], a = a + v, c = a + b, del(m[k]), slices, rest(), append to a slice, the same inside loops; after EVERY statement every live variable is read back from the real session and compared with a value-semantics reference model " +
		"(immutable values), and every observed map is checked for repeated keys; results of functions returning large containers as map keys or elements, keys taken out with first(m).key; scripted expectations for values the interpreter hands out (info, iteration over a map that is changed by the loop body, rest and range slices of large maps). Only the first divergence of a history is reported, classified by the statement that caused it. non-trivial = history with >=1 copy and >=1 later mutation; distinct = distinct history texts."
}
func (c06) NumBatches(tier string) int {
	if tier == "thorough" {
		return 64
	}
	return 16
}
func (c06) Assumptions() []string {
	return []string{"the reference model holds immutable values, so value semantics hold in it by construction",
		"signature 'inplace:<op>:big' (index assignment / del on an array of more than 8 elements or a map in its large representation) is the open finding KF-C06-inplace; everything else is reported"}
}

type c06Case struct {
	Stmts  []string          `json:"statements"`
	Expect map[string]string `json:"expect,omitempty"`
	Sig    string            `json:"sig,omitempty"`
}

type c06Step struct {
	node *gt.Node
	op   string // classification of the statement
}

var c06Vars = []string{"a", "b", "c", "d", "e"}

func c06Lit(c *fw.Ctx, isMap bool) *gt.Node {
	r := c.Rng
	n := []int{0, 1, 2, 3, 4, 5, 6, 7, 8, 9, 10, 12, 20, 3, 4, 5, 8, 9}[r.IntN(18)]
	if isMap {
		if n > 12 {
			n = 12
		}
		kids := []*gt.Node{}
		for i := 0; i < n; i++ {
			kids = append(kids, gt.Lit(fmt.Sprintf("k%d", i)), gt.Lit(int64(i)))
		}
		return &gt.Node{K: gt.KMap, Kids: kids}
	}
	els := make([]*gt.Node, n)
	for i := range els {
		els[i] = gt.Lit(int64(i * 10))
	}
	return gt.MkArr(els...)
}

// history builds one random history. kinds[name] tracks whether a variable currently holds an array ("a"), map ("m") or is unset.
func (p c06) history(c *fw.Ctx) []c06Step {
	r := c.Rng
	kinds := map[string]string{}
	var steps []c06Step
	add := func(op string, n *gt.Node) { steps = append(steps, c06Step{n, op}) }
	pick := func(kind string) string {
		var cands []string
		for _, v := range c06Vars {
			if kinds[v] == kind {
				cands = append(cands, v)
			}
		}
		if len(cands) == 0 {
			return ""
		}
		return cands[r.IntN(len(cands))]
	}
	other := func(not string) string {
		for {
			v := c06Vars[r.IntN(len(c06Vars))]
			if v != not {
				return v
			}
		}
	}
	// helper functions defined first
	add("def", &gt.Node{K: gt.KFunc, Name: "mutA", Params: []string{"x"}, Body: []*gt.Node{
		{K: gt.KIdxAssign, Name: "x", Kids: []*gt.Node{gt.Lit(int64(0)), gt.Lit(int64(99))}}, gt.Id("x")}})
	add("def", &gt.Node{K: gt.KFunc, Name: "mutM", Params: []string{"x"}, Body: []*gt.Node{
		{K: gt.KIdxAssign, Op: ".", Name: "x", Text: "zz", Kids: []*gt.Node{nil, gt.Lit(int64(99))}}, gt.Id("x")}})
	add("def", &gt.Node{K: gt.KFunc, Name: "app", Params: []string{"x", "v"}, Body: []*gt.Node{
		gt.Assign("x", gt.In("+", gt.Id("x"), gt.MkArr(gt.Id("v")))), gt.Id("x")}})
	// functions whose result holds a large array as a map key / as an element: every call returns a value of its own
	bigEls := make([]*gt.Node, 9+r.IntN(4))
	for i := range bigEls {
		bigEls[i] = gt.Lit(int64(i + 1))
	}
	add("def", &gt.Node{K: gt.KFunc, Name: "mkK", Params: []string{"n"}, Body: []*gt.Node{{K: gt.KMap, Kids: []*gt.Node{gt.MkArr(bigEls...), gt.Id("n")}}}})
	add("def", &gt.Node{K: gt.KFunc, Name: "mkV", Params: []string{"n"}, Body: []*gt.Node{gt.MkArr(&gt.Node{K: gt.KMap, Kids: []*gt.Node{gt.MkArr(bigEls...), gt.Id("n")}}, gt.Id("n"))}})
	// two initial bindings
	add("bind", gt.Assign("a", c06Lit(c, false)))
	kinds["a"] = "a"
	add("bind", gt.Assign("b", c06Lit(c, true)))
	kinds["b"] = "m"
	n := 6 + r.IntN(20)
	val := func() *gt.Node { return gt.Lit(int64(100 + r.IntN(900))) }
	for len(steps) < n+5 {
		switch r.IntN(26) {
		case 25: // merge of two maps of every size combination whose key ranges touch in one key (or not at all)
			nl, nr := 1+r.IntN(7), 1+r.IntN(8)
			start := 10 + r.IntN(5)
			lo := start + nl - 1 + []int{0, 1, -1, 2}[r.IntN(4)] // first key of the right map: the left map's last key, the next one, the one before, ...
			mk := func(from, n int, val int) *gt.Node {
				var kids []*gt.Node
				for i := 0; i < n; i++ {
					kids = append(kids, gt.Lit(fmt.Sprintf("k%02d", from+i)), gt.Lit(int64(val+i)))
				}
				return &gt.Node{K: gt.KMap, Kids: kids}
			}
			dst := c06Vars[r.IntN(len(c06Vars))]
			switch r.IntN(3) {
			case 0:
				add("plus", gt.Assign(dst, gt.In("+", mk(start, nl, 100), mk(lo, nr, 200))))
			case 1:
				add("plus", gt.Assign(dst, gt.In("+", mk(lo, nr, 200), mk(start, nl, 100))))
			default: // the left operand grown key by key (its storage has room to spare), merged twice, then grown again
				x := other(dst)
				d2 := dst
				for d2 == dst || d2 == x {
					d2 = c06Vars[r.IntN(len(c06Vars))]
				}
				add("bind", gt.Assign(x, &gt.Node{K: gt.KMap}))
				for i := 0; i < nl+3; i++ {
					add("idxassign", &gt.Node{K: gt.KIdxAssign, Name: x, Kids: []*gt.Node{gt.Lit(fmt.Sprintf("k%02d", start+i-3)), gt.Lit(int64(100 + i))}})
				}
				add("plus", gt.Assign(dst, gt.In("+", gt.Id(x), mk(lo+1, nr, 200))))
				add("plus", gt.Assign(d2, gt.In("+", gt.Id(x), mk(lo+1, 1+r.IntN(3), 300))))
				add("idxassign", &gt.Node{K: gt.KIdxAssign, Name: x, Kids: []*gt.Node{gt.Lit("k98"), gt.Lit(int64(1))}})
				kinds[x], kinds[d2] = "m", "m"
			}
			kinds[dst] = "m"
		case 23, 24: // two results of one call, the key array of one taken out and updated through its own binding, a later call
			x := c06Vars[r.IntN(len(c06Vars))]
			y, k := other(x), ""
			for k == "" || k == x || k == y {
				k = c06Vars[r.IntN(len(c06Vars))]
			}
			arg := gt.Lit(int64(1 + r.IntN(2)))
			if r.IntN(2) == 0 {
				add("bind", gt.Assign(x, gt.Call(gt.Id("mkK"), arg)))
				if r.IntN(2) == 0 {
					add("bind", gt.Assign(y, gt.Call(gt.Id("mkK"), arg)))
				}
				add("copy", gt.Assign(k, &gt.Node{K: gt.KDot, Kids: []*gt.Node{gt.Bi("first", gt.Id(x))}, Text: "key"}))
				kinds[x], kinds[y] = "m", "m"
			} else {
				add("bind", gt.Assign(x, gt.Call(gt.Id("mkV"), arg)))
				if r.IntN(2) == 0 {
					add("bind", gt.Assign(y, gt.Call(gt.Id("mkV"), arg)))
				}
				add("copy", gt.Assign(k, &gt.Node{K: gt.KDot, Kids: []*gt.Node{gt.Bi("first", gt.Idx(gt.Id(x), gt.Lit(int64(0))))}, Text: "key"}))
				kinds[x], kinds[y] = "a", "a"
			}
			kinds[k] = "a"
			add("idxassign", &gt.Node{K: gt.KIdxAssign, Name: k, Kids: []*gt.Node{gt.Lit(int64(r.IntN(4) - 2)), val()}})
			add("bind", gt.Assign(y, gt.Call(gt.Id([]string{"mkK", "mkV"}[r.IntN(2)]), arg)))
		case 0:
			v := c06Vars[r.IntN(len(c06Vars))]
			isMap := r.IntN(2) == 0
			add("bind", gt.Assign(v, c06Lit(c, isMap)))
			kinds[v] = map[bool]string{true: "m", false: "a"}[isMap]
		case 1, 2: // copy
			src := c06Vars[r.IntN(len(c06Vars))]
			if kinds[src] == "" {
				continue
			}
			dst := other(src)
			add("copy", gt.Assign(dst, gt.Id(src)))
			kinds[dst] = kinds[src]
		case 3, 4, 5: // index assignment on array
			if v := pick("a"); v != "" {
				add("idxassign", &gt.Node{K: gt.KIdxAssign, Name: v, Kids: []*gt.Node{gt.Lit(int64(r.IntN(6) - 2)), val()}})
			}
		case 6, 7: // map set existing / new key
			if v := pick("m"); v != "" {
				key := fmt.Sprintf("k%d", r.IntN(14))
				if r.IntN(3) == 0 {
					add("idxassign", &gt.Node{K: gt.KIdxAssign, Op: ".", Name: v, Text: key, Kids: []*gt.Node{nil, val()}})
				} else {
					add("idxassign", &gt.Node{K: gt.KIdxAssign, Name: v, Kids: []*gt.Node{gt.Lit(key), val()}})
				}
			}
		case 8: // delete
			if v := pick("m"); v != "" {
				add("del", &gt.Node{K: gt.KDel, Op: "index", Name: v, Kids: []*gt.Node{gt.Lit(fmt.Sprintf("k%d", r.IntN(12)))}})
			}
		case 9: // append element / array, rebinding the same variable
			if v := pick("a"); v != "" {
				if r.IntN(2) == 0 {
					add("plus", gt.Assign(v, gt.In("+", gt.Id(v), gt.MkArr(val()))))
				} else {
					add("plus", gt.Assign(v, gt.In("+", gt.Id(v), val())))
				}
			}
		case 10: // c = a + b (result into a third variable; operands must stay unchanged)
			x, y := pick("a"), pick("a")
			if x != "" && y != "" {
				dst := other(x)
				add("plus", gt.Assign(dst, gt.In("+", gt.Id(x), gt.Id(y))))
				kinds[dst] = "a"
			}
			mx, my := pick("m"), pick("m")
			if mx != "" && my != "" && r.IntN(2) == 0 {
				dst := other(mx)
				add("plus", gt.Assign(dst, gt.In("+", gt.Id(mx), gt.Id(my))))
				kinds[dst] = "m"
			}
		case 21: // grow one map key by key (spare capacity), then merge a smaller one with other keys into a third variable
			mx, my := pick("m"), pick("m")
			if mx != "" && my != "" && mx != my {
				for k := 0; k < 1+r.IntN(4); k++ {
					add("idxassign", &gt.Node{K: gt.KIdxAssign, Name: my, Kids: []*gt.Node{gt.Lit(fmt.Sprintf("n%d", r.IntN(30))), val()}})
				}
				add("idxassign", &gt.Node{K: gt.KIdxAssign, Name: mx, Kids: []*gt.Node{gt.Lit(fmt.Sprintf("x%d", r.IntN(30))), val()}})
				dst := other(mx)
				if dst != my {
					add("plus", gt.Assign(dst, gt.In("+", gt.Id(mx), gt.Id(my))))
					kinds[dst] = "m"
				}
			}
		case 20: // + with an empty operand: the result is still a value of its own
			v := c06Vars[r.IntN(len(c06Vars))]
			if kinds[v] != "" {
				dst := other(v)
				var empty *gt.Node = gt.MkArr()
				if kinds[v] == "m" {
					empty = &gt.Node{K: gt.KMap}
				}
				if r.IntN(2) == 0 {
					add("plus", gt.Assign(dst, gt.In("+", empty, gt.Id(v))))
				} else {
					add("plus", gt.Assign(dst, gt.In("+", gt.Id(v), empty)))
				}
				kinds[dst] = kinds[v]
			}
		case 11: // slice then keep
			if v := pick("a"); v != "" {
				dst := other(v)
				lo := r.IntN(3)
				add("slice", gt.Assign(dst, &gt.Node{K: gt.KSlice, Kids: []*gt.Node{gt.Id(v), gt.Lit(int64(lo)), gt.Lit(int64(lo + r.IntN(12)))}}))
				kinds[dst] = "a"
			}
		case 12: // rest
			v := c06Vars[r.IntN(len(c06Vars))]
			if kinds[v] != "" {
				dst := other(v)
				add("rest", gt.Assign(dst, gt.Bi("rest", gt.Id(v))))
				// rest() of a 0/1 element container is nil: model the kind loosely (nil is handled by both sides)
				kinds[dst] = kinds[v]
			}
		case 13: // pass to a mutating function, result discarded / kept elsewhere
			if v := pick("a"); v != "" {
				dst := other(v)
				add("call", gt.Assign(dst, gt.Call(gt.Id("mutA"), gt.Id(v))))
				kinds[dst] = "a"
			}
		case 14:
			if v := pick("m"); v != "" {
				dst := other(v)
				add("call", gt.Assign(dst, gt.Call(gt.Id("mutM"), gt.Id(v))))
				kinds[dst] = "m"
			}
		case 15: // store inside another container
			v := c06Vars[r.IntN(len(c06Vars))]
			if kinds[v] != "" {
				dst := other(v)
				if r.IntN(2) == 0 {
					add("nest", gt.Assign(dst, gt.MkArr(gt.Id(v), gt.Lit(int64(1)))))
					kinds[dst] = "a"
				} else {
					add("nest", gt.Assign(dst, &gt.Node{K: gt.KMap, Kids: []*gt.Node{gt.Lit("in"), gt.Id(v)}}))
					kinds[dst] = "m"
				}
			}
		case 16: // append through a function
			if v := pick("a"); v != "" {
				dst := other(v)
				add("call", gt.Assign(dst, gt.Call(gt.Id("app"), gt.Id(v), val())))
				kinds[dst] = "a"
			}
		case 17: // loop mutating one variable
			if v := pick("a"); v != "" {
				lv := fmt.Sprintf("i%d", len(steps))
				body := &gt.Node{K: gt.KIdxAssign, Name: v, Kids: []*gt.Node{gt.Id(lv), gt.In("+", gt.Id(lv), gt.Lit(int64(1000)))}}
				add("idxassign", &gt.Node{K: gt.KFor, Op: "var", Name: lv, Kids: []*gt.Node{gt.Lit(int64(1 + r.IntN(3)))}, Body: []*gt.Node{body}})
			}
		case 18: // repeat
			if v := pick("a"); v != "" {
				dst := other(v)
				add("plus", gt.Assign(dst, gt.In("*", gt.Id(v), gt.Lit(int64(r.IntN(3))))))
				kinds[dst] = "a"
			}
		default: // slice then append to the slice (spare capacity)
			if v := pick("a"); v != "" {
				dst := other(v)
				add("slice", gt.Assign(dst, &gt.Node{K: gt.KSlice, Kids: []*gt.Node{gt.Id(v), gt.Lit(int64(0)), gt.Lit(int64(1 + r.IntN(14)))}}))
				kinds[dst] = "a"
				add("plus", gt.Assign(dst, gt.In("+", gt.Id(dst), val())))
			}
		}
	}
	return steps
}

// check runs one history; returns the first divergence.
func (p c06) check(c *fw.Ctx, steps []c06Step) (sig, detail string, nontrivial bool) {
	ref := gt.NewRef()
	ss := newSession(false)
	copies, muts := 0, 0
	// which variables the statements so far allow to share storage under the open in-place finding: b = a, passing,
	// nesting, slicing and rest() do; literals and the results of + and * never do
	group := map[string]c06Store{}
	nextGroup := 0
	for k, st := range steps {
		src := gt.RenderOne(st.node)
		kindBefore := map[string]string{} // operand kinds as they are BEFORE the statement (b = c + b re-binds an operand)
		for _, v := range c06Vars {
			if val, ok := ref.Global.Lookup(v); ok {
				kindBefore[v] = fmt.Sprintf("%T", val)
			}
		}
		bigBefore := ref.BigInPlace
		ref.BigInPlace = false
		rv := ref.Run([]*gt.Node{st.node})
		inPlaceBig := ref.BigInPlace
		ref.BigInPlace = bigBefore || inPlaceBig
		g := ss.eval(src, 3*time.Second)
		if ref.Exhausted {
			return "", "", false
		}
		if st.op == "copy" || st.op == "nest" || st.op == "call" {
			copies++
		}
		if copies > 0 && (st.op == "idxassign" || st.op == "del" || st.op == "plus") {
			muts++
		}
		if g.panicked != "" {
			return "panic:" + st.op, fmt.Sprintf("statement %d %q panicked: %s", k, src, g.panicked), true
		}
		if gt.IsErr(rv) != g.isErr {
			return "status:" + st.op, fmt.Sprintf("statement %d %q: interpreter %s, model %s", k, src, outStr(g), valStr(rv)), true
		}
		// observe every live variable
		names := make([]string, 0, len(c06Vars))
		names = append(names, c06Vars...)
		sort.Strings(names)
		for _, v := range names {
			want, ok := ref.Global.Lookup(v)
			if !ok {
				continue
			}
			o := ss.eval(v, time.Second)
			if o.isErr {
				return "observe-error:" + st.op, fmt.Sprintf("after statement %d %q reading %s fails: %s", k, src, v, outStr(o)), true
			}
			if why := corruptVal(o.val, 0); why != "" {
				return "corrupt:" + st.op, fmt.Sprintf("after statement %d %q variable %s is not a map any more: %s", k, src, v, why), true
			}
			if !gt.Same(want, o.val) {
				size := "small"
				switch {
				case inPlaceBig && !c06Shares(group, v, st.node):
					size = "big-unshared" // not explained by sharing through a copy: the result of + or a literal is affected
				case inPlaceBig:
					size = "big"
				case bigBefore:
					size = "after-big" // an earlier statement updated a large container in place: its effects surface later (also through the cache)
				}
				return "inplace:" + st.op + ":" + size, fmt.Sprintf("after statement %d %q variable %s is %s, value semantics give %s", k, src, v, clip(valStr(o.val)), clip(valStr(want))), true
			}
		}
		if !g.isErr {
			c06Regroup(group, &nextGroup, st, func(name string) string { return kindBefore[name] }, func(name string) string {
				v, ok := ref.Global.Lookup(name)
				if !ok {
					return ""
				}
				return fmt.Sprintf("%T", v)
			})
		}
	}
	return "", "", copies > 0 && muts > 0
}

// c06Mentions lists the variables a statement mentions.
func c06Mentions(n *gt.Node, out map[string]bool) {
	if n == nil {
		return
	}
	if n.Name != "" {
		out[n.Name] = true
	}
	for _, k := range n.Kids {
		c06Mentions(k, out)
	}
	for _, k := range n.Body {
		c06Mentions(k, out)
	}
	for _, k := range n.Else {
		c06Mentions(k, out)
	}
}

// c06Store is what a variable may share under the open in-place finding: its own top-level storage and the
// storages reachable through its elements (a copy by +, * or a literal is shallow).
type c06Store struct {
	top  int
	deep map[int]bool
}

func (st c06Store) all() map[int]bool {
	out := map[int]bool{st.top: true}
	for k := range st.deep {
		out[k] = true
	}
	return out
}

// c06Shares tells if variable v may share storage with a variable the statement mentions.
func c06Shares(group map[string]c06Store, v string, stmt *gt.Node) bool {
	m := map[string]bool{}
	c06Mentions(stmt, m)
	if m[v] {
		return true
	}
	g, ok := group[v]
	if !ok {
		return false
	}
	mine := g.all()
	for x := range m {
		if gx, ok := group[x]; ok {
			for id := range gx.all() {
				if mine[id] {
					return true
				}
			}
		}
	}
	return false
}

// c06Regroup updates the share model after a statement.
func c06Regroup(group map[string]c06Store, next *int, st c06Step, kindOf, kindAfter func(string) string) {
	n := st.node
	if n.K != gt.KAssign {
		return
	}
	rhs := n.Kids[0]
	m := map[string]bool{}
	c06Mentions(rhs, m)
	deepOf := func(withTop bool) map[int]bool {
		d := map[int]bool{}
		for x := range m {
			if g, ok := group[x]; ok {
				for id := range g.deep {
					d[id] = true
				}
				// array + map appends the map as one element: it is nested, not merged
				if withTop || kindOf(x) != kindAfter(n.Name) {
					d[g.top] = true
				}
			}
		}
		return d
	}
	*next++
	fresh := *next
	first := func() (c06Store, bool) {
		names := make([]string, 0, len(m))
		for x := range m {
			names = append(names, x)
		}
		sort.Strings(names)
		for _, x := range names {
			if g, ok := group[x]; ok {
				return g, true
			}
		}
		return c06Store{}, false
	}
	switch st.op {
	case "copy", "slice", "rest": // same top-level storage
		if st.op != "copy" && kindAfter(n.Name) == "*gt.Map" {
			// rest() and a range slice of a map are cut off their source at the first update of either (42e0d7c): unlike
			// the slice of an array they never show a later write to the other side
			group[n.Name] = c06Store{top: fresh, deep: deepOf(false)}
			return
		}
		if g, ok := first(); ok {
			group[n.Name] = g
			return
		}
		group[n.Name] = c06Store{top: fresh, deep: map[int]bool{}}
	case "nest": // a new container holding the variable
		group[n.Name] = c06Store{top: fresh, deep: deepOf(true)}
	case "call":
		if rhs.K == gt.KCall && len(rhs.Kids) >= 2 && rhs.Kids[0].Name != "app" {
			if g, ok := group[rhs.Kids[1].Name]; ok { // mutA/mutM return their (shared) parameter
				// ... or, for an argument equal to an earlier one, the memoized result object of that earlier call:
				// all results of one function may share (negative ids name the per-function cache)
				cid := -1 - int(fnv64(rhs.Kids[0].Name)%1000)
				d := map[int]bool{cid: true}
				for id := range g.deep {
					d[id] = true
				}
				group[n.Name] = c06Store{top: g.top, deep: d}
				return
			}
		}
		group[n.Name] = c06Store{top: fresh, deep: deepOf(false)}
	default: // bind, plus (+ and *): new top-level storage, elements copied shallowly
		group[n.Name] = c06Store{top: fresh, deep: deepOf(false)}
	}
}

func (p c06) one(c *fw.Ctx, steps []c06Step) {
	c.Eval(1)
	texts := make([]string, len(steps))
	for i, s := range steps {
		texts[i] = gt.RenderOne(s.node)
	}
	sig, detail, nt := p.check(c, steps)
	if nt {
		c.ShapeH(fnv64(strings.Join(texts, "\x01")))
	}
	if sig == "" {
		return
	}
	// shrink: drop steps while the same signature is produced
	cur := steps
	for pass := 0; pass < 3; pass++ {
		changed := false
		for i := 0; i < len(cur); i++ {
			cand := append(append([]c06Step{}, cur[:i]...), cur[i+1:]...)
			if s2, _, _ := p.check(c, cand); s2 == sig {
				cur = cand
				changed = true
				i--
			}
		}
		if !changed {
			break
		}
	}
	_, d2, _ := p.check(c, cur)
	if d2 != "" {
		detail = d2
	}
	texts = texts[:0]
	for _, s := range cur {
		texts = append(texts, gt.RenderOne(s.node))
	}
	c.Violate(strings.SplitN(sig, ":", 2)[0], sig, c06Case{Stmts: texts}, detail)
}

func (p c06) RunBatch(c *fw.Ctx) {
	InitGrol(nil)
	for i, sc := range c06Scripts {
		if i%c.NBatches == c.Batch {
			c.Begin(c06Case{Stmts: sc.stmts})
			p.scripted(c, sc.stmts, sc.expect, sc.sig)
			c.Count("scripted_cases", 1)
		}
	}
	n := c.Pick(1200, 30000)
	for i := 0; i < n; i++ {
		steps := p.history(c)
		texts := make([]string, len(steps))
		for k, s := range steps {
			texts[k] = gt.RenderOne(s.node)
		}
		c.Begin(c06Case{Stmts: texts})
		p.one(c, steps)
		if i == 0 {
			c.Sample(map[string]any{"history": texts})
		}
	}
}

// ReplayCase re-runs a recorded history given as statement texts; expectations come from the value-semantics
// model only for the statement forms the replay parser knows (copy and index assignment), enough for the witnesses.
func (p c06) ReplayCase(c *fw.Ctx, input json.RawMessage) {
	InitGrol(nil)
	var cs struct {
		Stmts  []string          `json:"statements"`
		Expect map[string]string `json:"expect"` // variable -> Inspect text expected after the last statement
		Sig    string            `json:"sig"`
	}
	if err := json.Unmarshal(input, &cs); err != nil {
		return
	}
	p.scripted(c, cs.Stmts, cs.Expect, cs.Sig)
}

// scripted runs statements and compares the printed form of some variables afterwards.
func (p c06) scripted(c *fw.Ctx, stmts []string, expect map[string]string, sig string) {
	c.Eval(1)
	ss := newSession(false)
	for _, s := range stmts {
		ss.eval(s, 3*time.Second)
	}
	for v, want := range expect {
		o := ss.eval(v, time.Second)
		if o.isErr || gt.Inspect(o.val) != want {
			if sig == "" {
				sig = "inplace:idxassign:big"
			}
			c.Violate("inplace", sig, c06Case{Stmts: stmts, Expect: expect, Sig: sig}, fmt.Sprintf("variable %s is %s, value semantics give %s", v, outStr(o), want))
			return
		}
	}
	c.ShapeH(fnv64(strings.Join(stmts, "\x01")))
}

// c06Scripts: bindings of values the interpreter itself hands out (info, iteration pairs) are values too.
var c06Scripts = []struct {
	stmts  []string
	expect map[string]string
	sig    string
}{
	{[]string{"x = info", "n0 = len(x.globals)", "zznew = 1", "y = info", "same = len(x.globals) == n0"}, map[string]string{"same": "true"}, "scripted:info-shared"},
	{[]string{"x = info", "x.foo = 1", "z = info", "nofoo = z.foo == nil"}, map[string]string{"nofoo": "true"}, "scripted:info-shared"},
	{[]string{"x = info", "n0 = len(x)", "del(x.version)", "z = info", "same = len(z) == n0"}, map[string]string{"same": "true"}, "scripted:info-shared"},
	{[]string{"func fi() {i1 = info; loc = 1; i2 = info; [len(i1.stack[0]), len(i2.stack[0])]}", "r = fi()"}, map[string]string{"r": "[0,2]"}, "scripted:info-shared"},
	{[]string{"m = {1: 1, 2: 2, 3: 3, 4: 4, 5: 5, 6: 6}", "seen = []", "for kv = m {if kv.key == 1 {del(m[2])}; seen = seen + kv.key}"}, map[string]string{"seen": "[1,2,3,4,5,6]", "m": "{1:1,3:3,4:4,5:5,6:6}"}, "scripted:loop-snapshot"},
	{[]string{"m = {1: 1, 2: 2, 3: 3, 4: 4}", "seen = []", "for kv = m {if kv.key == 1 {del(m[2])}; seen = seen + kv.key}"}, map[string]string{"seen": "[1,2,3,4]", "m": "{1:1,3:3,4:4}"}, "scripted:loop-snapshot"},
	{[]string{"m = {1: 1, 2: 2, 3: 3, 4: 4, 5: 5, 6: 6}", "seen = []", "for kv = m {if kv.key == 1 {m[0] = 0; m[7] = 7}; seen = seen + kv.key}"}, map[string]string{"seen": "[1,2,3,4,5,6]"}, "scripted:loop-snapshot"},
	{[]string{"m = {1: 1, 2: 2, 3: 3, 4: 4, 5: 5, 6: 6, 7: 7}", "r = m[1:7]", "del(m[1])", "r[0] = 0", "q = rest(r)", "del(r[3])"}, map[string]string{"m": "{2:2,3:3,4:4,5:5,6:6,7:7}", "r": "{0:0,2:2,4:4,5:5,6:6,7:7}", "q": "{2:2,3:3,4:4,5:5,6:6,7:7}"}, "scripted:rest-shared"},
}
