package props

import (
	"bytes"
	"encoding/json"
	"fmt"
	"regexp"
	"sort"
	"strings"
	"time"

	"verif/canon"
	"verif/fw"
	"verif/gensyn"
	"verif/gt"
)

// C15: line-at-a-time input is equivalent to whole-file input.

type c15 struct{ fw.Base }

func init() { fw.Register(c15{}) }

func (c15) ID() string { return "C15" }
func (c15) Rule() string {
	return "(a) every program accepted in file mode (grammar-generated, typed-grammar, corpus) must give the same canonical tree in line mode, with no continuation request and no error; " +
		"(b) EVERY prefix of those programs that ends at a token boundary inside an unclosed ( [ {, in the middle of a string or block comment, or right after a binary operator must make line mode answer 'more input needed' with no error " +
		"(token boundaries, bracket depth and operator positions come from the generator, not from the lexer under test); " +
		"(c) error-free scripts (typed-grammar statements, plus scripts defining macros before use) are evaluated at once and statement by statement on a persistent session under every split into consecutive chunks (all 2^(n-1) splits up to 8 statements, random beyond) " +
		"and must print the same text and leave the same saved globals. non-trivial = program with >=1 qualifying cut, or script with >=2 chunks; distinct = distinct program/split texts."
}
func (c15) Exhaustive(string) bool { return false }
func (c15) NumBatches(tier string) int {
	if tier == "thorough" {
		return 64
	}
	return 16
}
func (c15) Assumptions() []string {
	return []string{"a cut qualifies only if the whole program is accepted in file mode", "scripts for (c) have no top-level return and end without error when evaluated at once"}
}

type c15Case struct {
	Src    string   `json:"src,omitempty"` // Go-quoted program or prefix
	Kind   string   `json:"check"`         // "whole", "cut", "chunks"
	Chunks []string `json:"chunks,omitempty"`
}

func (p c15) whole(c *fw.Ctx, src string) bool {
	f := parseSrc(src, false)
	if !f.accepted() {
		return false
	}
	c.Eval(1)
	l := parseSrc(src, true)
	switch {
	case l.panic != "":
		c.Violate("line-panic", "whole:panic", c15Case{Src: fw.Q(src), Kind: "whole"}, l.panic)
	case len(l.errs) > 0:
		c.Violate("line-error", "whole:error", c15Case{Src: fw.Q(src), Kind: "whole"}, "accepted in file mode but line mode reports: "+l.errs[0])
	case l.cont:
		c.Violate("line-continuation", "whole:continuation", c15Case{Src: fw.Q(src), Kind: "whole"}, "a complete program makes line mode ask for more input")
	default:
		a, b := canon.Dump(f.prog, canon.Opts{}), canon.Dump(l.prog, canon.Opts{})
		if a != b {
			c.Violate("tree-diff", "whole:tree-diff", c15Case{Src: fw.Q(src), Kind: "whole"}, fmt.Sprintf("file mode %s\nline mode %s", a, b))
		}
	}
	return true
}

func (p c15) cut(c *fw.Ctx, prefix, why string) {
	c.Eval(1)
	c.Count("cuts_checked", 1)
	l := parseSrc(prefix, true)
	cs := c15Case{Src: fw.Q(prefix), Kind: "cut"}
	switch {
	case l.panic != "":
		c.Violate("cut-panic", "cut:panic:"+why, cs, l.panic)
	case len(l.errs) > 0:
		c.Violate("cut-error", "cut:error:"+why, cs, fmt.Sprintf("prefix of a valid program cut %s: line mode reports an error (continuation=%v): %s", why, l.cont, l.errs[0]))
	case !l.cont:
		c.Violate("cut-no-continuation", "cut:no-continuation:"+why, cs, "prefix of a valid program cut "+why+": line mode does not ask for more input")
	}
}

// chunks evaluates a script at once and in chunks.
func (p c15) chunks(c *fw.Ctx, stmts []string, split []bool) {
	p.chunksJoined(c, stmts, split, ";\n")
}

// chunksJoined: sep is what joins the statements of one chunk (and of the whole script).
func (p c15) chunksJoined(c *fw.Ctx, stmts []string, split []bool, sep string) {
	c.Eval(1)
	timedOut := false // an evaluation that hit the harness's own deadline decides nothing
	run := func(inputs []string) (string, string, bool) {
		ss := newSession(false)
		var out strings.Builder
		failed := false
		for _, in := range inputs {
			o := ss.eval(in, 10*time.Second)
			out.WriteString(o.printed)
			if o.timedOut {
				timedOut = true
			}
			if o.isErr || o.panicked != "" {
				failed = true
			}
		}
		var buf bytes.Buffer
		_, _ = ss.s.SaveGlobals(&buf)
		return out.String(), buf.String(), failed
	}
	once := strings.Join(stmts, sep)
	o1, g1, f1 := run([]string{once})
	if timedOut {
		c.Count("timeouts_skipped", 1)
		return
	}
	if f1 {
		// evaluating at once fails: if feeding the statements one by one succeeds, the two ways disagree
		if _, _, fAll := run(stmts); !fAll && !timedOut {
			c.Violate("at-once-error", "chunks:at-once-error", c15Case{Kind: "chunks", Chunks: stmts}, "the script fails when evaluated at once but succeeds statement by statement")
			return
		}
		c.Count("scripts_with_errors_skipped", 1)
		return
	}
	var chunks []string
	cur := stmts[0]
	for i := 1; i < len(stmts); i++ {
		if split[i-1] {
			chunks = append(chunks, cur)
			cur = stmts[i]
		} else {
			cur += sep + stmts[i]
		}
	}
	chunks = append(chunks, cur)
	if len(chunks) >= 2 {
		c.ShapeH(fnv64(strings.Join(chunks, "\x01")))
	}
	o2, g2, f2 := run(chunks)
	if timedOut {
		c.Count("timeouts_skipped", 1)
		return
	}
	cs := c15Case{Kind: "chunks", Chunks: chunks}
	switch {
	case f2:
		c.Violate("chunk-error", "chunks:error", cs, "the script evaluates without error at once but fails when fed in chunks")
	case o1 != o2 || g1 != g2:
		sig := "chunks:output"
		if o1 == o2 {
			sig = "chunks:globals"
		}
		// the two other faces of "all macros of an input are defined, then all calls expanded, then it is evaluated"
		// (open finding): a macro defined twice in one input (the last definition wins for every use), and a call
		// NAME(...) that comes before NAME becomes a macro (expanded at once, an ordinary call statement by statement)
		if name := c15MacroRedefined(stmts); name != "" {
			sig = "chunks:macro-phases:redefined"
		} else if c15MacroUsedBeforeDefined(stmts) {
			sig = "chunks:macro-phases:name-used-before-definition"
		}
		if sig != "chunks:output" && sig != "chunks:globals" {
			c.Violate("chunk-output", sig, cs, fmt.Sprintf("at once printed %q, in chunks %q; globals %q vs %q", clip(o1), clip(o2), clip(g1), clip(g2)))
			return
		}
		if o1 == o2 {
			c.Violate("chunk-globals", "chunks:globals", cs, fmt.Sprintf("final globals differ:\nat once   %q\nin chunks %q", clip(g1), clip(g2)))
			return
		}
		if c15MacroBodyEffect(stmts) && c15SameLines(o1, o2) {
			// all macros of an input are expanded before any of its statements runs: what a macro BODY prints (not its
			// template) comes earlier at once than statement by statement; same lines, other order
			sig = "chunks:output:macro-body-effect-order"
		}
		c.Violate("chunk-output", sig, cs, fmt.Sprintf("at once printed %q, in chunks %q", clip(o1), clip(o2)))
	case g1 != g2:
		c.Violate("chunk-globals", "chunks:globals", cs, fmt.Sprintf("final globals differ:\nat once   %q\nin chunks %q", clip(g1), clip(g2)))
	}
}

var c15MacroDefRe = regexp.MustCompile(`^\s*([A-Za-z_][A-Za-z0-9_]*)\s*=\s*macro\(`)

// c15MacroRedefined returns a macro name that the statements define more than once.
func c15MacroRedefined(stmts []string) string {
	seen := map[string]int{}
	for _, st := range stmts {
		if m := c15MacroDefRe.FindStringSubmatch(st); m != nil {
			seen[m[1]]++
			if seen[m[1]] > 1 {
				return m[1]
			}
		}
	}
	return ""
}

// c15MacroUsedBeforeDefined tells if some statement calls NAME(...) before the statement that makes NAME a macro.
func c15MacroUsedBeforeDefined(stmts []string) bool {
	for i, st := range stmts {
		m := c15MacroDefRe.FindStringSubmatch(st)
		if m == nil {
			continue
		}
		call := regexp.MustCompile(`\b` + regexp.QuoteMeta(m[1]) + `\(`)
		for _, before := range stmts[:i] {
			if call.MatchString(before) {
				return true
			}
		}
	}
	return false
}

// c15MacroBodyEffect tells if a statement defines a macro whose body does something before its quote().
func c15MacroBodyEffect(stmts []string) bool {
	for _, st := range stmts {
		i := strings.Index(st, "macro(")
		if i < 0 {
			continue
		}
		j := strings.Index(st[i:], "{")
		if j >= 0 && !strings.HasPrefix(strings.TrimSpace(st[i+j+1:]), "quote(") {
			return true
		}
	}
	return false
}

func c15SameLines(a, b string) bool {
	la, lb := strings.Split(a, "\n"), strings.Split(b, "\n")
	sort.Strings(la)
	sort.Strings(lb)
	return strings.Join(la, "\n") == strings.Join(lb, "\n")
}

var c15MacroScripts = [][]string{
	{"mr = macro(x) {quote(unquote(x) + 1)}", "println(mr(1))", "mr = macro(x) {quote(unquote(x) + 2)}", "println(mr(1))"},
	{"fs = func(ms) {ms(2)}", "println(fs(x => x * 10))", "ms = macro(x) {quote(unquote(x) + 1)}", "println(ms(1))"},
	{"rest_of = func(a, ..) {..}", "println(rest_of(1, 2))", "inc = macro(x) {quote(unquote(x) + 1)}", "println(rest_of(3, 4), inc(41))"},
	{"func vz(..) {len(..)}", "println(vz(1, 2, 3))", "inc = macro(x) {quote(unquote(x) + 1)}", "println(vz(1, 2), inc(vz()))"},
	{"mp = macro(x) {println(\"expanding\"); quote(unquote(x))}", "println(\"a\")", "println(mp(1))", "println(\"b\", mp(2))"},
	{"m1 = macro(x) {quote(unquote(x) + 1)}", "a = m1(2)", "println(a, m1(a))", "func f(y) {m1(y) * 2}", "println(f(3))"},
	{"unless = macro(c, t, e) {quote(if !(unquote(c)) {unquote(t)} else {unquote(e)})}", "v = unless(1 > 2, \"yes\", \"no\")", "println(v)", "w = unless(true, println(\"not printed\"), 7)"},
	{"two = macro() {quote(2)}", "x = two() + two()", "for i = two() {println(i, x)}"},
	{"ma = macro(x) {quote(unquote(x) + 1)}", "mb = macro(y) {quote(unquote(y) * 3)}", "mc = macro() {quote(5)}", "println(ma(1), mb(2), mc())", "z = ma(mb(mc()))"},
	{"v0 = 1", "ma = macro(x) {quote(unquote(x) - 1)}", "mb = macro(x, y) {quote([unquote(x), unquote(y)])}", "println(mb(ma(v0), v0))"},
}

func (p c15) RunBatch(c *fw.Ctx) {
	InitGrol(nil)
	// (a)+(b) grammar-generated programs
	n := c.Pick(2000, 60000)
	for i := 0; i < n; i++ {
		g := gensyn.New(c.Rng)
		g.Program(1+c.Rng.IntN(4), 1+c.Rng.IntN(4))
		src, offs := gensyn.Render(g.Toks, nil)
		c.Begin(c15Case{Src: fw.Q(src), Kind: "whole"})
		if !p.whole(c, src) {
			c.Count("not_accepted", 1)
			continue
		}
		c.Count("accepted_programs", 1)
		cuts := 0
		for k, t := range g.Toks {
			if k == len(g.Toks)-1 {
				break
			}
			prefix := src[:offs[k]]
			switch {
			case t.BinOp:
				c.Begin(c15Case{Src: fw.Q(prefix), Kind: "cut"})
				p.cut(c, prefix, "after-binary-operator")
				cuts++
			case t.Depth > 0 && t.Text != "\n":
				c.Begin(c15Case{Src: fw.Q(prefix), Kind: "cut"})
				p.cut(c, prefix, "inside-open-bracket")
				cuts++
			}
			if t.Splitty && len(t.Text) > 2 {
				// cut in the middle of the string / block comment (after its first two bytes at least)
				start := offs[k] - len(t.Text)
				mid := start + 2 + c.Rng.IntN(len(t.Text)-2)
				if t.Text[0] == '"' && mid > start && src[mid-1] == '\\' {
					mid-- // do not cut between a backslash and the escaped byte
				}
				if mid > start+1 && (t.Text[0] != '"' || !strings.Contains(src[start+1:mid], "\"")) {
					pre := src[:mid]
					c.Begin(c15Case{Src: fw.Q(pre), Kind: "cut"})
					p.cut(c, pre, "inside-string-or-comment")
					cuts++
				}
			}
		}
		if cuts > 0 {
			c.ShapeH(fnv64(src))
		}
		if i == 0 {
			c.Sample(map[string]any{"program": src, "qualifying_cuts": cuts})
		}
	}
	// corpus: whole-program equivalence
	for fi, b := range Corpus() {
		if fi%c.NBatches == c.Batch {
			p.whole(c, string(b))
		}
	}
	// (a)+(c) typed scripts
	m := c.Pick(300, 8000)
	for i := 0; i < m; i++ {
		g := gt.NewGen(c.Rng)
		stmts := g.Program(2+c.Rng.IntN(9), 1+c.Rng.IntN(2))
		ref := gt.NewRef()
		rv := ref.Run(stmts)
		if ref.Exhausted || ref.BigInPlace || gt.IsErr(rv) {
			continue
		}
		rr := &gt.Renderer{}
		var texts []string
		for _, s := range stmts {
			texts = append(texts, rr.Stmt(s, ""))
		}
		p.whole(c, strings.Join(texts, ";\n"))
		p.allSplits(c, texts)
	}
	if c.Batch == 0 {
		for _, ms := range c15MacroScripts {
			p.allSplits(c, ms)
		}
	}
	// the shipped example and test programs fed the way the REPL reads a file: line by line, a chunk being complete
	// when line mode no longer asks for more input; the whole file at once must give the same output and globals
	for fi, src := range corpusPrograms() {
		if fi%c.NBatches != c.Batch {
			continue
		}
		var chunks []string
		cur := ""
		for _, line := range strings.Split(src, "\n") {
			cur += line + "\n"
			if r := parseSrc(cur, true); r.cont {
				continue
			}
			if strings.TrimSpace(cur) != "" {
				chunks = append(chunks, strings.TrimRight(cur, "\n"))
			}
			cur = ""
		}
		if len(chunks) < 2 || len(chunks) > 400 {
			continue
		}
		split := make([]bool, len(chunks)-1)
		for i := range split {
			split[i] = true
		}
		c.Begin(c15Case{Kind: "chunks", Chunks: chunks})
		p.chunksJoined(c, chunks, split, "\n")
		c.Count("corpus_scripts", 1)
	}
}

func (p c15) allSplits(c *fw.Ctx, texts []string) {
	k := len(texts) - 1
	if k <= 0 {
		return
	}
	if k <= 7 {
		for mask := 1; mask < 1<<k; mask++ {
			split := make([]bool, k)
			for b := 0; b < k; b++ {
				split[b] = mask&(1<<b) != 0
			}
			c.Begin(c15Case{Kind: "chunks", Chunks: texts})
			p.chunks(c, texts, split)
		}
		return
	}
	for t := 0; t < 40; t++ {
		split := make([]bool, k)
		for b := range split {
			split[b] = c.Rng.IntN(2) == 0
		}
		c.Begin(c15Case{Kind: "chunks", Chunks: texts})
		p.chunks(c, texts, split)
	}
}

func (p c15) ReplayCase(c *fw.Ctx, input json.RawMessage) {
	InitGrol(nil)
	var cs c15Case
	if err := json.Unmarshal(input, &cs); err != nil {
		return
	}
	switch cs.Kind {
	case "whole":
		p.whole(c, fw.UQ(cs.Src))
	case "cut":
		p.cut(c, fw.UQ(cs.Src), "replay")
	case "chunks":
		if len(cs.Chunks) > 0 {
			// the recorded chunks are re-split at every chunk boundary
			split := make([]bool, len(cs.Chunks)-1)
			for i := range split {
				split[i] = true
			}
			p.chunks(c, cs.Chunks, split)
		}
	}
}
