package props

import (
	"bytes"
	"context"
	"encoding/json"
	"fmt"
	"grol.io/grol/extensions"
	"io"
	"os"
	"os/exec"
	"runtime/debug"
	"strconv"
	"strings"
	"syscall"
	"time"

	"grol.io/grol/eval"
	"grol.io/grol/lexer"
	"grol.io/grol/object"
	"grol.io/grol/parser"
	"grol.io/grol/repl"
	"verif/fw"
	"verif/gt"
)

// C09: execution is bounded — logical-time cancellation sweep + process-level monitor.

type c09 struct{ fw.Base }

func init() {
	fw.Register(c09{})
	fw.SubCommands["c09child"] = c09Child
}

func (c09) ID() string { return "C09" }
func (c09) Rule() string {
	return "(1) logical time, no clock: a context whose Err() counts polls and starts failing at poll N is installed in eval.State.Context and State.Eval is run for EVERY N from 1 to the poll count of the uncancelled run (sampled beyond 1500) on terminating template programs and typed-grammar programs; " +
		"for every N the evaluation must return, within 100000 further polls, and a following input on the same state must behave as on a state that never saw the cancelled one. " +
		"(2) wall clock: child processes evaluate non-terminating loops, unbounded/mutual/closure/self/eval recursion wrapped in 0..20 nested blocks, growth operators with huge operands, doubling loops, deeply nested source and deeply nested values through repl.EvalStringWithOption " +
		"on a grid of MaxDepth {10,100,10000,default} x MaxDuration {1..1000 ms} with GOMEMLIMIT=256MiB and RLIMIT_AS=6GiB; the child must exit normally, return within MaxDuration + 5 s, report deep recursion as 'max depth' (or the deadline), and peak below 4*256+128 MiB resident. " +
		"non-trivial = cancelled run that was really interrupted / child run that hit a guard; distinct = distinct (program, N) resp. (program, depth, duration)."
}
func (c09) NumBatches(tier string) int {
	if tier == "thorough" {
		return 32
	}
	return 8
}
func (c09) MaxParallel() int           { return 6 }
func (c09) CaseTimeout() time.Duration { return 180 * time.Second }
func (c09) Assumptions() []string {
	return []string{"the constant factor 4 and the 5 s slack are the harness's reading of 'small constant'; a timing failure must reproduce when the case is re-run alone, otherwise it is only counted",
		"programs are sampled; the cancellation sweep covers every poll index of each sampled program (up to the cap)"}
}

// ---- logical-time half ----

type pollCtx struct {
	n        int64
	cancelAt int64
	done     chan struct{}
}

func (p *pollCtx) Deadline() (time.Time, bool) { return time.Time{}, false }
func (p *pollCtx) Done() <-chan struct{}       { return p.done }
func (p *pollCtx) Value(any) any               { return nil }
func (p *pollCtx) Err() error {
	p.n++
	if p.cancelAt > 0 && p.n >= p.cancelAt {
		return context.DeadlineExceeded
	}
	return nil
}

type c09Case struct {
	Src      string `json:"src"`
	CancelAt int64  `json:"cancel_at_poll,omitempty"`
	Depth    int    `json:"max_depth,omitempty"`
	DurMs    int    `json:"max_duration_ms,omitempty"`
	Kind     string `json:"check"`
}

// evalWithPolls runs src on s with a poll-counting context; returns polls used, polls after cancel, outcome.
func evalWithPolls(ss *session, src string, cancelAt int64) (polls, after int64, out runOut, returned bool) {
	ctx := &pollCtx{cancelAt: cancelAt, done: make(chan struct{})}
	defer func() {
		if r := recover(); r != nil {
			out.panicked = fmt.Sprint(r)
			out.isErr = true
			ss.s.Reset()
			returned = true
		}
		polls = ctx.n
		if cancelAt > 0 && ctx.n >= cancelAt {
			after = ctx.n - cancelAt
		}
	}()
	ss.out.Reset()
	l := lexer.New(src)
	p := parser.New(l)
	prog := p.ParseProgram()
	if len(p.Errors()) > 0 {
		out.parseErr = p.Errors()[0]
		return 0, 0, out, true
	}
	ss.s.Context = ctx
	ss.s.DefineMacros(prog)
	var node any = prog
	if ss.s.NumMacros() > 0 {
		node = ss.s.ExpandMacros(prog)
	}
	obj := ss.s.EvalToplevel(node)
	out.printed = ss.out.String()
	if obj.Type() == object.ERROR {
		out.isErr = true
		out.errMsg = obj.(object.Error).Value
	} else {
		out.val = toVal(obj)
	}
	return ctx.n, 0, out, true
}

var c09Terminating = []string{
	`t = 0; for i = 40 {t = t + i}; t`,
	`func fib(n) {if n < 2 {return n}; fib(n - 1) + fib(n - 2)}; fib(12)`,
	`a = []; for x = [1, 2, 3, 4, 5, 6, 7, 8, 9] {a = a + [x * 2]}; m = {}; for i = 1:6 {m[i] = a[i]}; println(m); len(a)`,
	`c = 0; for c < 20 {c = c + 1; if c % 3 == 0 {continue}; if c > 15 {break}}; c`,
	`func g(n) {if n <= 0 {return 0}; catch(g(n - 1)).value + 1}; g(10)`,
	`s = ""; for ch = "hello world" {s = ch + s}; println(s); first(s) + rest(s)`,
	`mk = macro(x) {quote(unquote(x) * 2)}; r = 0; for i = 10 {r = r + mk(i)}; r`,
	`h = () => {k = 0; for j = 5 {for l = 5 {k = k + j * l}}; k}; h() + h()`,
	`x = [1, 2, 3, 4, 5, 6, 7, 8, 9, 10]; y = x[2:8] + x[-3:]; z = {"a": y, "b": {"c": x}}; z.b.c[3] + len(z.a)`,
	`f = (a, ..) => {t = a; for v = .. {t = t + v}; t}; f(1, 2, 3, 4) + f(1, [5, 6])`,
	`sqrt(16) + max(1, 2, 3) + len(str(123)) + int("42") + round(2.5)`,
}

func (p c09) sweep(c *fw.Ctx, src string) {
	base := newSession(false)
	total, _, ref0, _ := evalWithPolls(base, src, 0)
	if ref0.parseErr != "" || total < 2 {
		return
	}
	// what a following input gives on a state that evaluated nothing before
	follow := `q = 0; for w = 3 {q = q + w}; println("after", q); q`
	twin := newSession(false)
	_, _, wantFollow, _ := evalWithPolls(twin, follow, 0)
	step := int64(1)
	if total > 1500 {
		step = total / 1500
	}
	for n := int64(1); n <= total; n += step {
		c.Eval(1)
		c.Begin(c09Case{Src: src, CancelAt: n, Kind: "cancel"})
		ss := newSession(false)
		polls, after, out, returned := evalWithPolls(ss, src, n)
		cs := c09Case{Src: src, CancelAt: n, Kind: "cancel"}
		if !returned {
			c.Violate("no-return", "cancel:no-return", cs, "evaluation did not return after cancellation")
			return
		}
		if out.panicked != "" && !guardPanic(out.panicked) {
			c.Violate("cancel-panic", "cancel:panic", cs, fmt.Sprintf("cancelled at poll %d of %d: panic %s", n, total, out.panicked))
			return
		}
		if after > 100000 {
			c.Violate("keeps-running", "cancel:keeps-running", cs, fmt.Sprintf("cancelled at poll %d of %d: %d further polls before returning", n, total, after))
			return
		}
		if polls >= n {
			c.ShapeH(fnv64(fmt.Sprintf("%s#%d", src, n)))
			c.Count("cancelled_runs", 1)
		}
		// the session must still work like a fresh one for an independent input
		_, _, got, _ := evalWithPolls(ss, follow, 0)
		if !sameOutcome(got, wantFollow) {
			c.Violate("trace-after-cancel", "cancel:trace", cs, fmt.Sprintf("cancelled at poll %d of %d, then %q: %s, expected %s", n, total, follow, outStr(got), outStr(wantFollow)))
			return
		}
	}
	c.Count("swept_programs", 1)
}

// ---- wall-clock half ----

type c09Tpl struct {
	name string
	src  string
	want string // "" anything bounded, "depth" must be a max depth or deadline report, "mem" peak memory must stay near the limit
	// fixDur != 0: the (depth, deadline) pair at which the template reaches the state it is about; the quick tier runs
	// exactly that pair (the thorough tier runs it besides the whole grid)
	fixDepth, fixDur int
}

func c09Wrap(k int, inner string) string {
	s := inner
	for i := 0; i < k; i++ {
		switch i % 3 {
		case 0:
			s = "if true {" + s + "}"
		case 1:
			s = "for 1 {" + s + "}"
		default:
			s = "[" + s + "][0]"
		}
	}
	return s
}

func c09Templates() []c09Tpl {
	t := []c09Tpl{
		{"loop-empty", `for true {}`, "", 0, 0},
		{"loop-assign", `for true {x = [1, 2, 3]}`, "", 0, 0},
		{"loop-count", `for 9000000000 {}`, "", 0, 0},
		{"loop-var", `for i = 9000000000 {}`, "", 0, 0},
		{"loop-range", `for i = 0:9000000000 {}`, "", 0, 0},
		{"loop-alloc-string", `s = "x"; for true {s = s + "y"}`, "", 0, 0},
		{"loop-ext", `for true {sqrt(2.0)}`, "", 0, 0},
		{"loop-sleep-short", `for true {sleep(0.001)}`, "", 0, 0},
		{"sleep-long", `sleep(1000)`, "", 0, 0},
		{"loop-map-grow", `m = {}; for i = 9000000000 {m[i] = i}`, "", 0, 0},
		{"double-string", `s = "x"; for 70 {s = s + s}; len(s)`, "", 0, 0},
		{"double-array", `a = [1]; for 70 {a = a + a}; len(a)`, "", 0, 0},
		{"double-map-values", `m = {"k": [1]}; for 70 {m.k = m.k + m.k}; len(m.k)`, "", 0, 0},
		{"repeat-string-huge", `len("x" * 1099511627776)`, "", 0, 0},
		{"repeat-array-huge", `len([1] * 1099511627776)`, "", 0, 0},
		{"range-huge", `len(0:1099511627776)`, "", 0, 0},
		// length x count wraps around 2^64 to a small number
		{"repeat-wrap-array-4", `len([1, 2, 3, 4] * (1 << 62))`, "mem", 100, 3000},
		{"repeat-wrap-array-8", `len(([0] * 8) * 2305843009213693952)`, "mem", 100, 3000},
		{"repeat-wrap-range-16", `len((0:16) * (1 << 60))`, "mem", 100, 3000},
		{"repeat-wrap-string-4", `len("abcd" * (1 << 62))`, "mem", 100, 3000},
		{"repeat-wrap-string-16", `len("0123456789abcdef" * (1 << 60))`, "mem", 100, 3000},
		{"repeat-wrap-array-2", `len([1, 2] * 9223372036854775807)`, "mem", 100, 3000},
		// the count alone fits the budget, length x count does not
		{"repeat-multi-500", `a = [0] * 500; b = a * 100000; len(b)`, "mem", 100, 5000},
		{"repeat-multi-16", `a = [0, 1, 2, 3, 4, 5, 6, 7, 8, 9, 10, 11, 12, 13, 14, 15]; b = a * 3000000; len(b)`, "mem", 100, 5000},
		{"repeat-multi-string", `s = "0123456789" * 100; t = s * 1000000; len(t)`, "mem", 100, 5000},
		{"repeat-multi-twice", `a = ([0] * 4000) * 4000; b = a * 10; len(b)`, "mem", 100, 5000},
		// a long operand (itself within the budget) repeated a small number of times
		{"repeat-long-string-15", `s = "x" * 60000000; t = s * 15; len(t)`, "mem", 100, 8000},
		{"repeat-long-string-31", `s = "x" * 30000000; t = s * 31; len(t)`, "mem", 100, 8000},
		{"repeat-long-string-8", `s = "x" * 100000000; t = s * 8; len(t)`, "mem", 100, 8000},
		{"repeat-long-string-3", `s = "xy" * 100000000; t = s * 3; u = s * 2; len(t) + len(u)`, "mem", 100, 8000},
		{"repeat-long-array-15", `a = [0] * 4000000; b = a * 15; len(b)`, "mem", 100, 8000},
		{"repeat-long-array-3", `a = [0] * 10000000; b = a * 3; c = a * 2; len(b) + len(c)`, "mem", 100, 8000},
		{"repeat-string-big-print", `println("x" * 50000000)`, "", 0, 0},
		{"join-big", `a = ["xxxxxxxxxxxxxxxx"] * 10000000; len(join(a, ","))`, "", 0, 0},
		{"runes-big", `len(runes("x" * 100000000))`, "", 0, 0},
		{"split-big", `len(split("x" * 100000000))`, "", 0, 0},
		{"sprintf-width", `len(sprintf("%*d", 1073741824, 1))`, "", 0, 0},
		{"nest-value-array", `a = []; for 3000000 {a = [a]}; a`, "", 0, 0},
		{"nest-value-map", `m = {}; for 3000000 {m = {"k": m}}; m == m`, "", 0, 0},
		{"nest-value-print", `a = []; for 3000000 {a = [a]}; println(a)`, "", 0, 0},
		{"eval-recursion", `func f() {eval("f()")}; f()`, "depth", 0, 0},
		{"mutual", `func a(n) {b(n + 1)}; func b(n) {a(n + 1)}; a(0)`, "depth", 0, 0},
		{"closure-rec", `g = n => g(n + 1); g(0)`, "depth", 0, 0},
		{"self-rec", `(n => self(n + 1))(0)`, "depth", 0, 0},
		// many kept-alive results of guarded operations, each small compared with what is free when the first one is made
		{"accumulate-300", `b = [0] * 300; l = []; for i = 60000 {l = l + [b + []]}; len(l)`, "mem", 100, 20000},
		{"accumulate-40k", `b = [0] * 40000; l = []; for i = 1500 {l = l + [b + []]}; len(l)`, "mem", 100, 20000},
		{"accumulate-1m", `b = [0] * 1000000; l = []; for i = 60 {l = l + [b + []]}; len(l)`, "mem", 100, 20000},
		{"accumulate-str", `b = "x" * 100000; m = {}; for i = 9000 {m[i] = b + "y"}; len(m)`, "mem", 100, 20000},
		{"accumulate-range", `l = []; for i = 12000 {l = l + [0:5000]}; len(l)`, "mem", 100, 20000},
		{"unjson-loop", `unjson("for true {}")`, "", 100, 100},
		{"eval-loop", `eval("for true {}")`, "", 100, 100},
		{"unjson-grow", `unjson("s = \"x\"; for 70 {s = s + s}; len(s)")`, "", 100, 1000},
		// values nested as deep as a loop can make them before the deadline, handed to everything that recurses on them
		{"nest-1m-print", `a = []; for 1000000 {a = [a]}; print(a)`, "", 100, 1000},
		{"nest-300k-result", `a = []; for 300000 {a = [a]}; a`, "", 100, 1000},
		{"nest-600k-sprintf", `a = []; for 600000 {a = [a]}; len(sprintf("%v", a))`, "", 100, 1000},
		{"nest-1m-json-go", `a = []; for 1000000 {a = [a]}; len(json_go(a))`, "", 100, 1000},
		{"nest-1m-json", `a = []; for 1000000 {a = [a]}; len(json(a))`, "", 100, 1000},
		{"nest-1m-eq", `a = []; for 1000000 {a = [a]}; b = a; [a == b, a < b]`, "", 100, 1000},
		{"nest-1m-mapkey", `a = []; for 1000000 {a = [a]}; m = {a: 1}; len(m)`, "", 100, 1000},
		{"nest-1m-arg", `a = []; for 1000000 {a = [a]}; func f(x) {1}; f(a) + f(a)`, "", 100, 1000},
		{"nest-1m-error", `a = []; for 1000000 {a = [a]}; error(a)`, "", 100, 1000},
		{"nest-500k-map", `m = {}; for 500000 {m = {"k": [m]}}; println(m)`, "", 100, 1000},
		{"nest-500k-str", `m = {}; for 500000 {m = {"k": m}}; len(str(m))`, "", 100, 1000},
		{"sprintf-double", `s = "aaaaaaaaaaaaaaaa"; for 40 {s = sprintf("%s%s", s, s)}; len(s)`, "", 100, 1000},
		{"print-buffer", `s = "x" * 1000000; func f() {for true {print(s)}}; f()`, "", 100, 1000},
		{"unrestricted-run-then-loop", `run("true"); for true {}`, "", 100, 100},
		{"unrestricted-exec-then-loop", `exec("true"); for true {}`, "", 100, 100},
		// recursion through nested literals and argument positions under the default depth limit: every level must
		// count towards the nesting limit that keeps the Go stack bounded
		{"recdefault-arrays-4", `func f(n) {[[[[f(n + 1)]]]]}; f(0)`, "depth", 0, 60000},
		{"recdefault-arrays-8", `func f(n) {[[[[[[[[f(n + 1)]]]]]]]]}; f(0)`, "depth", 0, 60000},
		{"recdefault-args-4", `func id(x) {x}; func f(n) {id(id(id(id(f(n + 1)))))}; f(0)`, "depth", 0, 60000},
		{"recdefault-maps-4", `func f(n) {{"a": {"b": {"c": {"d": f(n + 1)}}}}}; f(0)`, "depth", 0, 60000},
		{"recdefault-mixed", `func g(n) {[f(n + 1), 1]}; func f(n) {{"k": [g(n + 1)]}}; f(0)`, "depth", 0, 60000},
		{"recdefault-index", `func f(n) {[[1]][f(n + 1)][0]}; f(0)`, "depth", 0, 60000},
		// evaluators entered from deep inside a recursion (unjson evaluates in a state of its own): they continue at that depth
		{"recdefault-unjson", `func f(n) {if n >= 45000 {unjson("func g(n) {g(n + 1)}; g(0)")} else {f(n + 1)}}; f(0)`, "depth", 0, 60000},
		{"recdefault-eval", `func f(n) {if n >= 45000 {eval("func g(n) {g(n + 1)}; g(0)")} else {f(n + 1)}}; f(0)`, "depth", 0, 60000},
		{"recdefault-unjson-literals", `func f(n) {if n >= 20000 {unjson("func g(n) {[[[[g(n + 1)]]]]}; g(0)")} else {[[[[f(n + 1)]]]]}}; f(0)`, "depth", 0, 60000},
		// the deadline expires deep inside a recursion whose every level catches errors and goes on
		{"catch-deep-2000", `func f(n) {if n > 2000 {for true {}}; catch(f(n + 1)); 1}; f(0)`, "", 0, 500},
		{"catch-deep-4000", `func f(n) {if n > 4000 {for true {}}; catch(f(n + 1)); 1}; f(0)`, "", 0, 500},
		{"catch-deep-9000", `func f(n) {if n > 9000 {for true {}}; r = catch(f(n + 1)); if r.err {n} else {r.value}}; f(0)`, "", 0, 500},
		{"log-deep-3000", `func f(n) {if n == 0 {for true {}}; log(f(n - 1)); 1}; f(3000)`, "", 0, 500},
		{"if-deep-4000", `func f(n) {if n == 0 {for true {}}; if f(n - 1) {1} else {2}}; f(4000)`, "", 0, 500},
		{"index-deep-4000", `func f(n) {if n == 0 {for true {}}; [f(n - 1)][0]; 1}; f(4000)`, "", 0, 500},
		{"eval-macro-deep", `m = macro(x) {f = func(n) {if n == 0 {return 0}; f(n - 1)}; f(100000); quote(unquote(x) + 1)}; func g(n) {if n == 0 {return eval("m(3)")}; g(n - 1)}; g(100000)`, "depth", 0, 60000},
		{"slice-deep-3000", `a = [1, 2]; func f(n) {if n == 0 {for true {}}; a[f(n - 1):1]}; f(3000)`, "", 0, 200},
		{"slicehi-deep-3000", `a = [1, 2]; func f(n) {if n == 0 {for true {}}; a[0:f(n - 1)]}; f(3000)`, "", 0, 200},
		{"forrange-deep-3000", `func f(n) {if n == 0 {for true {}}; for i = f(n - 1):3 {}}; f(3000)`, "", 0, 200},
		{"forcount-deep-3000", `func f(n) {if n == 0 {for true {}}; for i = f(n - 1) {}}; f(3000)`, "", 0, 200},
		{"binop-deep-3000", `func f(n) {if n == 0 {for true {}}; 1 + f(n - 1) * 2}; f(3000)`, "", 0, 200},
		{"mapkey-deep-3000", `func f(n) {if n == 0 {for true {}}; {f(n - 1): 1}}; f(3000)`, "", 0, 200},
		{"catch-deep-loop", `func f(n) {if n > 3000 {for true {}}; for 3 {catch(f(n + 1))}; 1}; f(0)`, "", 0, 500},
		// extensions that build strings: many separators, few bytes of elements
		{"join-separators", `s = "y" * 1000000; a = [""] * 600; len(join(a, s))`, "mem", 100, 8000},
		{"join-separators-2", `s = "yz" * 20000000; len(join(["a", "b", "c", "d", "e", "f", "g", "h", "i", "j", "k", "l"], s))`, "mem", 100, 8000},
		// extensions whose result is many times their arguments, and output captured for the function cache
		{"amplify-regsub", `len(regsub("", "x" * 300000, "y" * 2000))`, "mem", 100, 20000},
		{"amplify-regsubmany", `x = "ab" * 10000000; len(regsub("a", x, "zz"))`, "mem", 100, 20000},
		{"amplify-sprintfshared", `len(sprintf("%v", ["x" * 1000000] * 500))`, "mem", 100, 20000},
		{"amplify-jsonshared", `len(json(["x" * 1000000] * 500))`, "mem", 100, 20000},
		{"amplify-sprintfwidth", `len(sprintf("%1000000d" * 500, [1] * 500))`, "mem", 100, 20000},
		{"printing-capture", `func f() {for true {print("x" * 1000000)}}; x = f(); 1`, "mem", 100, 4000},
		{"printing-nested", `func g() {for 200 {print("y" * 1000000)}; 1}; func f() {for true {g()}}; f()`, "mem", 100, 4000},
		{"printing-toplevel", `for true {println("z" * 1000000)}`, "mem", 100, 3000},
		// round 8: references to the match in a regsub template ($1 stands for text as long as the input), and images (4 MB
		// each at the largest size, kept by name for the life of the process)
		{"amplify-regsubrefs", `s = "a" * 20000000; len(regsub("(.*)", s, "$1" * 40))`, "mem", 100, 20000},
		{"amplify-regsubnamed", `s = "a" * 20000000; len(regsub("(?P<x>.*)", s, "${x}" * 40))`, "mem", 100, 20000},
		{"images-many", `for i = 400 {n = "img" + str(i); image.new(n, 1024, 1024); image.move_to(n, 0, 0); image.line_to(n, 1023, 0); image.line_to(n, 1023, 1023); image.line_to(n, 0, 1023); image.close_path(n); image.draw(n, [255, 0, 0])}; 1`, "mem", 100, 20000},
		// small containers that hold themselves several times at every level (tiny in memory, exponential as trees) as
		// arguments and results of memoizable calls
		{"shared-argument", `func id(x) {1}; a = [1]; for 45 {a = [a, a, 1]}; id(a); id([a]); id({1: a})`, "", 100, 1000},
		{"shared-result", `func mk(n) {a = [1]; for n {a = [a, a]}; a}; x = mk(45); y = mk(45); 1`, "", 100, 1000},
		{"shared-mapresult", `func mk(n) {a = {1: 1}; for n {a = {1: a, 2: a}}; a}; x = mk(45); 1`, "", 100, 1000},
		// results remembered by the function cache are memory too
		{"memo-accumulate-4k", `func f(n) {"a" * 4000 + sprintf("%d", n)}; for i = 0:100000000 {f(i)}; 1`, "mem", 100, 20000},
		{"memo-accumulate-arr", `func f(n) {[n, n + 1, n + 2, n + 3, n + 4, n + 5, n + 6]}; for i = 0:100000000 {f(i)}; 1`, "mem", 100, 20000},
		// comparing values whose elements are shared: billions of element comparisons without a single allocation
		{"native-compare-shared", `a = [0] * 1000000; b = [a] * 1200; b == b`, "", 100, 1000},
		{"macro-loop", `m = macro(x) {for true {}}; m(1)`, "", 0, 0},
		{"macro-rec", `m = macro(x) {func r(n) {r(n + 1)}; r(0)}; m(1)`, "", 0, 0},
	}
	for _, k := range []int{0, 5, 20, 60} {
		t = append(t, c09Tpl{fmt.Sprintf("rec-wrapped-%d", k), "func f(n) {" + c09Wrap(k, "f(n + 1)") + "}; f(0)", "depth", 0, 0})
	}
	for _, n := range []int{100, 9000, 11000, 100000, 2000000} {
		t = append(t,
			c09Tpl{fmt.Sprintf("deep-parens-%d", n), strings.Repeat("(", n) + "1" + strings.Repeat(")", n), "", 0, 0},
			c09Tpl{fmt.Sprintf("deep-brackets-%d", n), strings.Repeat("[", n) + "1" + strings.Repeat("]", n), "", 0, 0},
			c09Tpl{fmt.Sprintf("deep-prefix-%d", n), strings.Repeat("-", n) + "1", "", 0, 0},
			c09Tpl{fmt.Sprintf("deep-if-%d", n), strings.Repeat("if true {", n) + "1" + strings.Repeat("}", n), "", 0, 0},
			c09Tpl{fmt.Sprintf("deep-chain-%d", n), "1" + strings.Repeat("+1", n), "", 0, 0},
			c09Tpl{fmt.Sprintf("deep-lambda-%d", n), strings.Repeat("x=>", n) + "1", "", 0, 0},
			c09Tpl{fmt.Sprintf("deep-map-%d", n), strings.Repeat("{1:", n) + "1" + strings.Repeat("}", n), "", 0, 0})
	}
	return t
}

type c09ChildOut struct {
	Flags     string   `json:"flags"` // which guard words occur in the (untruncated) errors
	ElapsedMs int64    `json:"elapsed_ms"`
	HWMkB     int64    `json:"vm_hwm_kb"`
	Errs      []string `json:"errs"`
	ResLen    int      `json:"result_len"`
}

// c09Child: verifd c09child <file> <maxdepth> <durationMs>
func c09Child(args []string) int {
	if len(args) < 3 {
		return 3
	}
	b, err := os.ReadFile(args[0])
	if err != nil {
		return 3
	}
	depth, _ := strconv.Atoi(args[1])
	durMs, _ := strconv.Atoi(args[2])
	// address-space safety net for the sandbox
	_ = syscall.Setrlimit(syscall.RLIMIT_AS, &syscall.Rlimit{Cur: 6 << 30, Max: 6 << 30})
	if os.Getenv("VERIF_C09_UNRESTRICTED") != "" {
		InitGrolWith(&extensions.Config{UnrestrictedIOs: true}) // templates that need run()/exec()
		debug.SetMemoryLimit(256 << 20)
	} else {
		InitGrolNoMemLimit()
	}
	// the child never outlives its parent's patience (the parent gives up 90 s after the deadline and may itself be
	// killed by the case watchdog, which would leave a non terminating child behind)
	time.AfterFunc(time.Duration(durMs)*time.Millisecond+100*time.Second, func() { os.Exit(97) })
	opts := repl.EvalStringOptions()
	opts.MaxDepth = depth
	opts.MaxDuration = time.Duration(durMs) * time.Millisecond
	start := time.Now()
	var res string
	var errs []string
	if os.Getenv("VERIF_C09_DISCARD_OUTPUT") != "" {
		// what the program prints goes to a writer that keeps nothing (like a terminal or /dev/null), so that only what the
		// interpreter itself holds on to is measured
		st := eval.NewState()
		st.Out = io.Discard
		st.LogOut = io.Discard
		st.NoLog = true
		if depth > 0 {
			st.MaxDepth = depth
		}
		_, _, errs, _ = repl.EvalOne(context.Background(), st, string(b), io.Discard, opts)
	} else {
		res, errs, _ = repl.EvalStringWithOption(context.Background(), opts, string(b))
	}
	el := time.Since(start)
	out := c09ChildOut{ElapsedMs: el.Milliseconds(), Errs: errs, ResLen: len(res)}
	full := strings.Join(errs, " | ")
	for _, w := range []string{"max depth", "deadline", "would exceed memory", "too large", "nesting too deep"} {
		if strings.Contains(full, w) {
			out.Flags += w + ";"
		}
	}
	for i, e := range out.Errs {
		if len(e) > 300 {
			out.Errs[i] = e[:300]
		}
	}
	if st, err := os.ReadFile("/proc/self/status"); err == nil {
		for _, line := range strings.Split(string(st), "\n") {
			if strings.HasPrefix(line, "VmHWM:") {
				f := strings.Fields(line)
				if len(f) >= 2 {
					out.HWMkB, _ = strconv.ParseInt(f[1], 10, 64)
				}
			}
		}
	}
	jb, _ := json.Marshal(out)
	fmt.Println("C09RESULT " + string(jb))
	return 0
}

func (p c09) child(c *fw.Ctx, t c09Tpl, depth, durMs int, dir string) (kind, detail string, guard bool) {
	file := dir + "/prog.gr"
	if err := os.WriteFile(file, []byte(t.src), 0o644); err != nil {
		return "", "", false
	}
	exe, _ := os.Executable()
	ctx, cancel := context.WithTimeout(context.Background(), time.Duration(durMs)*time.Millisecond+90*time.Second)
	defer cancel()
	cmd := exec.CommandContext(ctx, exe, "c09child", file, strconv.Itoa(depth), strconv.Itoa(durMs))
	cmd.Env = append(os.Environ(), "GOMEMLIMIT=256MiB", "GOTRACEBACK=single")
	if strings.HasPrefix(t.name, "unrestricted-") {
		cmd.Env = append(cmd.Env, "VERIF_C09_UNRESTRICTED=1")
	}
	if strings.HasPrefix(t.name, "printing-") {
		cmd.Env = append(cmd.Env, "VERIF_C09_DISCARD_OUTPUT=1")
	}
	var outb, errb bytes.Buffer
	cmd.Stdout = &outb
	cmd.Stderr = &errb
	start := time.Now()
	err := cmd.Run()
	wall := time.Since(start)
	if ctx.Err() != nil {
		return "child-hang", fmt.Sprintf("child still running %v after a %d ms deadline", wall.Round(time.Millisecond), durMs), false
	}
	if err != nil {
		return "child-died", fmt.Sprintf("child exited abnormally (%v): %s", err, clipTail(errb.String(), 500)), false
	}
	i := strings.LastIndex(outb.String(), "C09RESULT ")
	if i < 0 {
		return "child-no-result", "child printed no result: " + clipTail(outb.String()+errb.String(), 300), false
	}
	var co c09ChildOut
	line := outb.String()[i+10:]
	if j := strings.IndexByte(line, '\n'); j >= 0 {
		line = line[:j]
	}
	if err := json.Unmarshal([]byte(line), &co); err != nil {
		return "child-no-result", err.Error(), false
	}
	errText := co.Flags + " " + strings.Join(co.Errs, " | ")
	guard = strings.Contains(errText, "max depth") || strings.Contains(errText, "deadline") || strings.Contains(errText, "would exceed memory") || strings.Contains(errText, "too large") || strings.Contains(errText, "nesting too deep")
	if co.ElapsedMs > int64(durMs)+5000 {
		return "late", fmt.Sprintf("returned after %d ms with a %d ms deadline (errors: %s)", co.ElapsedMs, durMs, clip(errText)), guard
	}
	if t.want == "mem" && co.HWMkB > (256*3/2+64)*1024 {
		// these programs only keep results of guarded operators alive: the guard must stop them near the limit
		return "memory", fmt.Sprintf("peak resident %d MiB with a 256 MiB limit although everything allocated goes through the memory guard (errors: %s)", co.HWMkB/1024, clip(errText)), guard
	}
	if co.HWMkB > (4*256+128)*1024 {
		return "memory", fmt.Sprintf("peak resident %d MiB with a 256 MiB limit (errors: %s)", co.HWMkB/1024, clip(errText)), guard
	}
	if t.want == "depth" && !strings.Contains(errText, "max depth") && !strings.Contains(errText, "deadline") {
		return "depth-report", "unbounded recursion was not reported as max depth / deadline: " + clip(errText), guard
	}
	return "", "", guard
}

// c09Sig names a child-process violation; unbounded recursion at the default depth limit (a Go stack of hundreds of
// megabytes) is marked ":deepstack" because its unwinding time under a low memory limit is the subject of an open finding.
func c09Sig(kind string, t c09Tpl, depth int) string {
	parts := strings.SplitN(t.name+"-", "-", 3)
	sig := "child:" + kind + ":" + parts[0] + "-" + parts[1]
	if t.want == "depth" && depth == 0 {
		sig += ":deepstack"
	}
	return sig
}

func clipTail(s string, n int) string {
	if len(s) > n {
		return "…" + s[len(s)-n:]
	}
	return s
}

func (p c09) RunBatch(c *fw.Ctx) {
	InitGrol(nil)
	// (1) logical-time sweeps
	for i, src := range c09Terminating {
		if i%c.NBatches == c.Batch {
			p.sweep(c, src)
		}
	}
	for k := 0; k < c.Pick(6, 60); k++ {
		g := gt.NewGen(c.Rng)
		stmts := g.Program(3+c.Rng.IntN(6), 1+c.Rng.IntN(3))
		ref := gt.NewRef()
		ref.Run(stmts)
		if ref.Exhausted || ref.BigInPlace || ref.Steps > 3000 {
			continue
		}
		p.sweep(c, gt.Render(stmts))
	}
	c.Sample(map[string]any{"sweep_program": c09Terminating[1], "cancelled_at": "every poll index"})
	// (2) wall-clock children
	dir := Scratch("c09")
	defer os.RemoveAll(dir)
	// (3) the guards as configured through the flags of the grol command (one batch builds and drives it)
	if c.Batch == c.NBatches-1 {
		p.runCliAll(c, dir)
	}
	tpls := c09Templates()
	depths := []int{10, 100, 10000, 0}
	durs := []int{1, 3, 10, 30, 100, 300, 1000}
	idx := 0
	type pair struct{ d, du int }
	for ti, t := range tpls {
		var pairs []pair
		if t.fixDur != 0 {
			pairs = append(pairs, pair{t.fixDepth, t.fixDur})
		}
		for _, d := range depths {
			for _, du := range durs {
				pairs = append(pairs, pair{d, du})
			}
		}
		for pi, pr := range pairs {
			{
				d, du := pr.d, pr.du
				idx++
				// quick: the template's own pair if it has one, else one (depth, duration) pair of the grid, rotating;
				// thorough: everything
				if c.Quick() {
					if t.fixDur != 0 && pi != 0 {
						continue
					}
					if t.fixDur == 0 && (idx+ti)%(len(depths)*len(durs)) != 0 {
						continue
					}
				}
				if idx%c.NBatches != c.Batch {
					continue
				}
				cs := c09Case{Src: t.name, Depth: d, DurMs: du, Kind: "child"}
				c.Begin(cs)
				c.Eval(1)
				kind, detail, guard := p.child(c, t, d, du, dir)
				if guard {
					c.ShapeH(fnv64(fmt.Sprintf("%s/%d/%d", t.name, d, du)))
				}
				c.Count("child_runs", 1)
				if kind == "" {
					continue
				}
				// must reproduce when re-run alone
				k2, d2, _ := p.child(c, t, d, du, dir)
				if k2 != kind {
					c.Count("unreproduced_"+kind, 1)
					continue
				}
				c.Violate(kind, c09Sig(kind, t, d), cs, t.name+": "+d2+" (first run: "+detail+")")
			}
		}
	}
}

func (p c09) ReplayCase(c *fw.Ctx, input json.RawMessage) {
	InitGrol(nil)
	var cs c09Case
	if err := json.Unmarshal(input, &cs); err != nil {
		return
	}
	if cs.Kind == "cancel" {
		p.sweep(c, cs.Src)
		return
	}
	dir := Scratch("c09r")
	defer os.RemoveAll(dir)
	if cs.Kind == "cli" {
		p.replayCli(c, cs, dir)
		return
	}
	for _, t := range c09Templates() {
		if t.name == cs.Src {
			c.Eval(1)
			if kind, detail, _ := p.child(c, t, cs.Depth, cs.DurMs, dir); kind != "" {
				c.Violate(kind, c09Sig(kind, t, cs.Depth), cs, t.name+": "+detail)
			}
		}
	}
}

var _ = eval.DefaultMaxDepth
