package gt

import (
	"math/rand/v2"
	"strings"
)

// My frozen copy of the documented precedence table (README / ast.go Priority constants).
// All binary operators are left associative.
var precOf = map[string]int{
	"=": 2, ":=": 2, "||": 3, "&&": 4, ":": 4, "=>": 5, "==": 6, "!=": 6, "<": 7, ">": 7, "<=": 7, ">=": 7,
	"+": 8, "-": 8, "|": 8, "^": 8, "*": 9, "%": 9, "&": 9, "<<": 9, ">>": 9, "/": 10,
}

const (
	pLowest  = 1
	pAssign  = 2
	pLambda  = 5
	pPrefix  = 11
	pPostfix = 12 // call, index, dot and atoms
)

// Renderer turns an AST into source text.
type Renderer struct {
	R       *rand.Rand // optional: random redundant parentheses / layout
	Compact bool       // no optional whitespace/newlines
}

func nodePrec(n *Node) int {
	switch n.K {
	case KInfix:
		return precOf[n.Op]
	case KAssign, KIdxAssign:
		return pAssign
	case KPrefix:
		return pPrefix
	case KIncDec:
		if n.Pre {
			return pPrefix
		}
		return pPostfix
	case KFunc:
		if n.Lambda > 0 {
			return pLambda
		}
		if n.Name != "" {
			return pLowest // named function definitions are statements
		}
		return pPostfix
	case KIf, KFor, KReturn, KBreak, KContinue, KRaw:
		return pLowest
	case KLit:
		// negative literals are spelled with their own parentheses
		return pPostfix
	}
	return pPostfix
}

// Expr renders n in a context that requires precedence >= minPrec.
func (r *Renderer) Expr(n *Node, minPrec int) string {
	s := r.expr(n)
	if nodePrec(n) < minPrec || (r.R != nil && r.R.IntN(14) == 0 && n.K != KRaw && nodePrec(n) > pLowest) {
		return "(" + s + ")"
	}
	return s
}

func (r *Renderer) list(ns []*Node) string {
	parts := make([]string, len(ns))
	for i, a := range ns {
		parts[i] = r.Expr(a, pLowest+1)
	}
	sep := ", "
	if r.R != nil && r.R.IntN(4) == 0 {
		sep = ","
	}
	return strings.Join(parts, sep)
}

func (r *Renderer) params(n *Node) string {
	ps := append([]string{}, n.Params...)
	if n.Variadic {
		ps = append(ps, "..")
	}
	return strings.Join(ps, ", ")
}

// Block renders a statement list in braces.
func (r *Renderer) Block(stmts []*Node, indent string) string {
	if len(stmts) == 0 {
		return "{}"
	}
	var sb strings.Builder
	sb.WriteString("{")
	inner := indent + "\t"
	multi := r.R == nil || r.R.IntN(3) > 0
	for i, s := range stmts {
		if multi {
			sb.WriteString("\n" + inner)
		} else if i > 0 {
			sb.WriteString(" ")
		}
		sb.WriteString(r.Stmt(s, inner))
		if i < len(stmts)-1 || (r.R != nil && r.R.IntN(3) == 0) {
			sb.WriteString(";")
		}
	}
	if multi {
		sb.WriteString("\n" + indent)
	}
	sb.WriteString("}")
	return sb.String()
}

// Stmt renders one statement.
func (r *Renderer) Stmt(n *Node, indent string) string {
	return r.exprI(n, indent)
}

func (r *Renderer) expr(n *Node) string { return r.exprI(n, "") }

func (r *Renderer) exprI(n *Node, indent string) string { //nolint:gocyclo,funlen // node kinds
	switch n.K {
	case KLit:
		return n.Text
	case KRaw:
		return n.Text
	case KIdent:
		return n.Name
	case KParen:
		return "(" + r.Expr(n.Kids[0], pLowest) + ")"
	case KPrefix:
		return n.Op + r.Expr(n.Kids[0], pPostfix)
	case KIncDec:
		if n.Pre {
			return n.Op + n.Name
		}
		return n.Name + n.Op
	case KInfix:
		p := precOf[n.Op]
		return r.Expr(n.Kids[0], p) + " " + n.Op + " " + r.Expr(n.Kids[1], p+1)
	case KAssign:
		op := " = "
		if n.Define {
			op = " := "
		}
		return n.Name + op + r.Expr(n.Kids[0], pAssign+1)
	case KIdxAssign:
		if n.Op == "." {
			return n.Name + "." + n.Text + " = " + r.Expr(n.Kids[1], pAssign+1)
		}
		return n.Name + "[" + r.Expr(n.Kids[0], pLowest+1) + "] = " + r.Expr(n.Kids[1], pAssign+1)
	case KIndex:
		return r.Expr(n.Kids[0], pPostfix) + "[" + r.Expr(n.Kids[1], pLowest+1) + "]"
	case KDot:
		return r.Expr(n.Kids[0], pPostfix) + "." + n.Text
	case KSlice:
		s := r.Expr(n.Kids[0], pPostfix) + "[" + r.Expr(n.Kids[1], precOf[":"]) + ":"
		if len(n.Kids) > 2 && n.Kids[2] != nil {
			s += r.Expr(n.Kids[2], precOf[":"]+1)
		}
		return s + "]"
	case KCall:
		return r.Expr(n.Kids[0], pPostfix) + "(" + r.list(n.Kids[1:]) + ")"
	case KBuiltin:
		return n.Op + "(" + r.list(n.Kids) + ")"
	case KDel:
		switch n.Op {
		case "index":
			return "del(" + n.Name + "[" + r.Expr(n.Kids[0], pLowest+1) + "])"
		case "dot":
			return "del(" + n.Name + "." + n.Text + ")"
		}
		return "del(" + n.Name + ")"
	case KArray:
		return "[" + r.list(n.Kids) + "]"
	case KMap:
		parts := make([]string, 0, len(n.Kids)/2)
		for i := 0; i+1 < len(n.Kids); i += 2 {
			parts = append(parts, r.Expr(n.Kids[i], pLambda)+": "+r.Expr(n.Kids[i+1], pLambda))
		}
		return "{" + strings.Join(parts, ", ") + "}"
	case KFunc:
		switch n.Lambda {
		case 0:
			s := "func"
			if n.Name != "" {
				s += " " + n.Name
			}
			return s + "(" + r.params(n) + ") " + r.Block(n.Body, indent)
		case 1:
			return r.lambdaParams(n) + " => " + r.Block(n.Body, indent)
		default:
			body := r.Expr(n.Body[0], pLambda+1)
			if strings.HasPrefix(body, "{") {
				body = "(" + body + ")"
			}
			return r.lambdaParams(n) + " => " + body
		}
	case KIf:
		s := "if " + r.Expr(n.Kids[0], pLowest+1) + " " + r.Block(n.Body, indent)
		if n.HasElse {
			if len(n.Else) == 1 && n.Else[0].K == KIf && (r.R == nil || r.R.IntN(2) == 0) {
				s += " else " + r.exprI(n.Else[0], indent)
			} else {
				s += " else " + r.Block(n.Else, indent)
			}
		}
		return s
	case KFor:
		var head string
		switch n.Op {
		case "cond", "count":
			head = r.Expr(n.Kids[0], pLowest+1)
		case "var", "list":
			head = n.Name + forEq(n) + r.Expr(n.Kids[0], pAssign+1)
		case "range":
			head = n.Name + forEq(n) + r.Expr(n.Kids[0], precOf[":"]) + ":" + r.Expr(n.Kids[1], precOf[":"]+1)
		}
		return "for " + head + " " + r.Block(n.Body, indent)
	case KReturn:
		if len(n.Kids) == 0 {
			return "return"
		}
		return "return " + r.Expr(n.Kids[0], pLowest+1)
	case KBreak:
		return "break"
	case KContinue:
		return "continue"
	}
	return "?"
}

func forEq(n *Node) string {
	if n.Define {
		return " := "
	}
	return " = "
}

func (r *Renderer) lambdaParams(n *Node) string {
	if len(n.Params) == 1 && !n.Variadic && (r.R == nil || r.R.IntN(3) > 0) {
		return n.Params[0]
	}
	return "(" + r.params(n) + ")"
}

// Program renders top-level statements separated by ";" (a newline does not end a statement in grol).
func (r *Renderer) Program(stmts []*Node) string {
	var sb strings.Builder
	for i, s := range stmts {
		sb.WriteString(r.Stmt(s, ""))
		if i < len(stmts)-1 {
			if r.R != nil && r.R.IntN(3) == 0 {
				sb.WriteString("; ")
			} else {
				sb.WriteString(";\n")
			}
		}
	}
	sb.WriteString("\n")
	return sb.String()
}

// Render is shorthand for a deterministic rendering without random layout.
func Render(stmts []*Node) string { return (&Renderer{}).Program(stmts) }

// RenderOne renders one statement deterministically.
func RenderOne(n *Node) string { return (&Renderer{}).Stmt(n, "") }
