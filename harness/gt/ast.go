// Package gt holds the typed program generator, its AST, the renderer that turns the AST into grol
// source using a frozen copy of the documented precedence table, and the independent reference
// evaluator of the documented semantics (DESIGN.md appendix A). Nothing here imports grol.
package gt

import (
	"fmt"
	"math"
	"strconv"
	"strings"
)

// K is a node kind.
type K int

const (
	KLit K = iota
	KIdent
	KPrefix
	KIncDec
	KInfix
	KAssign
	KIdxAssign
	KIndex
	KDot
	KSlice
	KCall
	KBuiltin
	KArray
	KMap
	KFunc
	KIf
	KFor
	KReturn
	KBreak
	KContinue
	KDel
	KParen
	KRaw // raw source text (used by some monitors for constructs outside the typed grammar)
)

// Node is one AST node of a generated program.
type Node struct {
	K        K
	Op       string  // operator, builtin name, for-form ("cond","count","var","range","list"), del form
	V        Val     // literal value
	Text     string  // literal spelling / raw text
	Name     string  // identifier, function name, loop variable, assignment target
	Kids     []*Node // operands
	Body     []*Node
	Else     []*Node
	HasElse  bool
	Params   []string
	Variadic bool
	Lambda   int  // 0: func(..){..}  1: (..) => {..}  2: (..) => expr
	Define   bool // := instead of =
	Pre      bool // prefix ++/--
}

// Helpers to build nodes.
func Lit(v Val) *Node { return &Node{K: KLit, V: v, Text: litText(v)} }
func LitT(v Val, text string) *Node {
	return &Node{K: KLit, V: v, Text: text}
}
func Id(name string) *Node              { return &Node{K: KIdent, Name: name} }
func In(op string, l, r *Node) *Node    { return &Node{K: KInfix, Op: op, Kids: []*Node{l, r}} }
func Pre(op string, x *Node) *Node      { return &Node{K: KPrefix, Op: op, Kids: []*Node{x}} }
func Assign(name string, v *Node) *Node { return &Node{K: KAssign, Name: name, Kids: []*Node{v}} }
func Define(name string, v *Node) *Node {
	return &Node{K: KAssign, Name: name, Kids: []*Node{v}, Define: true}
}
func Call(fn *Node, args ...*Node) *Node  { return &Node{K: KCall, Kids: append([]*Node{fn}, args...)} }
func Bi(name string, args ...*Node) *Node { return &Node{K: KBuiltin, Op: name, Kids: args} }
func MkArr(els ...*Node) *Node            { return &Node{K: KArray, Kids: els} }
func Idx(l, i *Node) *Node                { return &Node{K: KIndex, Kids: []*Node{l, i}} }
func Raw(text string) *Node               { return &Node{K: KRaw, Text: text} }

func litText(v Val) string {
	switch x := v.(type) {
	case int64:
		if x == math.MinInt64 {
			return "(-9223372036854775807 - 1)"
		}
		if x < 0 {
			return "(" + strconv.FormatInt(x, 10) + ")"
		}
		return strconv.FormatInt(x, 10)
	case float64:
		return floatText(x)
	case bool:
		return strconv.FormatBool(x)
	case string:
		return quoteStr(x)
	case Nil:
		return "nil"
	}
	return fmt.Sprintf("?%T", v)
}

// floatText spells a float so that the lexer reads it back as the same float (always with a dot or exponent).
func floatText(f float64) string {
	switch {
	case math.IsNaN(f):
		return "NaN"
	case math.IsInf(f, 1):
		return "Inf"
	case math.IsInf(f, -1):
		return "(-Inf)"
	}
	neg := f < 0 || (f == 0 && math.Signbit(f))
	a := math.Abs(f)
	s := strconv.FormatFloat(a, 'g', -1, 64)
	if !strings.ContainsAny(s, ".e") {
		s += ".0"
	}
	if strings.Contains(s, "e") && !strings.Contains(s, ".") {
		// 1e+21 is fine for the lexer
		_ = s
	}
	if neg {
		return "(-" + s + ")"
	}
	return s
}

// quoteStr spells a string with the escapes the lexer documents.
func quoteStr(s string) string {
	var sb strings.Builder
	sb.WriteByte('"')
	for i := 0; i < len(s); i++ {
		c := s[i]
		switch {
		case c == '"':
			sb.WriteString(`\"`)
		case c == '\\':
			sb.WriteString(`\\`)
		case c == '\n':
			sb.WriteString(`\n`)
		case c == '\t':
			sb.WriteString(`\t`)
		case c == '\r':
			sb.WriteString(`\r`)
		case c < 0x20 || c == 0x7f || c >= 0x80 && !validUTF8At(s, i):
			fmt.Fprintf(&sb, `\x%02x`, c)
		default:
			sb.WriteByte(c)
		}
	}
	sb.WriteByte('"')
	return sb.String()
}

func validUTF8At(s string, i int) bool {
	// keep multi-byte UTF-8 sequences raw when well formed
	c := s[i]
	n := 0
	switch {
	case c&0xE0 == 0xC0:
		n = 2
	case c&0xF0 == 0xE0:
		n = 3
	case c&0xF8 == 0xF0:
		n = 4
	case c&0xC0 == 0x80:
		// continuation byte: valid if a lead byte precedes within 3 bytes and covers it
		for k := 1; k <= 3 && i-k >= 0; k++ {
			l := s[i-k]
			if l&0xC0 != 0x80 {
				need := 0
				switch {
				case l&0xE0 == 0xC0:
					need = 2
				case l&0xF0 == 0xE0:
					need = 3
				case l&0xF8 == 0xF0:
					need = 4
				}
				return need > k && validLead(s, i-k, need)
			}
		}
		return false
	default:
		return false
	}
	return validLead(s, i, n)
}

func validLead(s string, i, n int) bool {
	if i+n > len(s) {
		return false
	}
	for k := 1; k < n; k++ {
		if s[i+k]&0xC0 != 0x80 {
			return false
		}
	}
	return strings.ToValidUTF8(s[i:i+n], "") == s[i:i+n]
}
