package gt

import (
	"fmt"
	"math"
	"math/rand/v2"
)

// T is a (loose) static type used to steer generation.
type T int

const (
	TInt T = iota
	TFloat
	TBool
	TStr
	TNil
	TArr
	TMap
	TAny
)

type vinfo struct {
	name string
	t    T
	ro   bool // parameters, loop variables and counters are never assigned by generated statements
}

type finfo struct {
	name   string
	params []T
	ret    T
	vari   bool
	rec    bool // first parameter is recursion fuel
}

// Gen generates well-formed, terminating programs of the core language.
type Gen struct {
	R      *rand.Rand
	scopes [][]vinfo // innermost last
	funcs  []finfo
	uniq   int
	inLoop int
	inFunc int
	// Profile knobs (0..100 probabilities / sizes)
	IllTyped  int  // percent of operands drawn without regard to type (exercises error outcomes)
	BigSizes  bool // bias container literals around the small/large thresholds
	NoPrint   bool
	NoClosure bool
	budget    int
}

// NewGen makes a generator with the default profile.
func NewGen(r *rand.Rand) *Gen {
	return &Gen{R: r, scopes: [][]vinfo{nil}, IllTyped: 4, BigSizes: true}
}

func (g *Gen) fresh(prefix string) string {
	g.uniq++
	return fmt.Sprintf("%s%d", prefix, g.uniq)
}

func (g *Gen) declare(name string, t T) {
	top := len(g.scopes) - 1
	for i, v := range g.scopes[top] {
		if v.name == name {
			g.scopes[top][i].t = t
			return
		}
	}
	g.scopes[top] = append(g.scopes[top], vinfo{name: name, t: t})
}

func (g *Gen) declareRO(name string, t T) {
	g.declare(name, t)
	top := len(g.scopes) - 1
	for i := range g.scopes[top] {
		if g.scopes[top][i].name == name {
			g.scopes[top][i].ro = true
		}
	}
}

// writable lists visible variables that statements may assign.
func (g *Gen) writable(t T) []vinfo {
	var out []vinfo
	for _, v := range g.visible(t) {
		if !v.ro && !IsConstant(v.name) {
			out = append(out, v)
		}
	}
	return out
}

func (g *Gen) visible(t T) []vinfo {
	var out []vinfo
	seen := map[string]bool{}
	for i := len(g.scopes) - 1; i >= 0; i-- {
		for _, v := range g.scopes[i] {
			if seen[v.name] {
				continue
			}
			seen[v.name] = true
			if t == TAny || v.t == t {
				out = append(out, v)
			}
		}
	}
	return out
}

func (g *Gen) chance(pct int) bool { return g.R.IntN(100) < pct }

var boundaryInts = []int64{0, 1, -1, 2, 3, 5, 7, 8, 9, 10, 63, 64, 65, 100, 255, 256, -2, -8,
	math.MaxInt64, math.MinInt64, math.MaxInt64 - 1, 1 << 53, 1<<53 + 1, 1<<53 - 1, 1 << 31, 1 << 32, -(1 << 53), 4611686018427387904}

func (g *Gen) intLit() *Node {
	switch g.R.IntN(10) {
	case 0, 1:
		return Lit(boundaryInts[g.R.IntN(len(boundaryInts))])
	case 2:
		v := int64(g.R.IntN(256))
		return LitT(v, fmt.Sprintf("0x%x", v))
	case 3:
		v := int64(g.R.IntN(64))
		return LitT(v, fmt.Sprintf("0b%b", v))
	default:
		return Lit(int64(g.R.IntN(12)))
	}
}

var boundaryFloats = []float64{0, 1.5, 2, -2.5, 0.1, 1e21, 1e-7, 9007199254740992, 9007199254740994, 3.0, 0.5, 1e300, -0.0, 100.25}

func (g *Gen) floatLit() *Node {
	if g.chance(6) {
		if g.chance(50) {
			return LitT(math.NaN(), "NaN")
		}
		return LitT(math.Inf(1), "Inf")
	}
	f := boundaryFloats[g.R.IntN(len(boundaryFloats))]
	if f == 0 && g.chance(30) {
		f = math.Copysign(0, -1)
	}
	return Lit(f)
}

var strPool = []string{"", "a", "abc", "héllo", "x y", "line\nbreak", "tab\t", "世界", "q\"uote", "back\\slash", "\xff\xfe", "Ab1_", "zzzzzzzzzz", "0", "é"}

func (g *Gen) strLit() *Node { return Lit(strPool[g.R.IntN(len(strPool))]) }

func (g *Gen) size() int {
	if g.BigSizes {
		switch g.R.IntN(8) {
		case 0:
			return 3 + g.R.IntN(3) // around the map threshold (4)
		case 1:
			return 7 + g.R.IntN(3) // around the array threshold (8)
		case 2:
			return 10 + g.R.IntN(10)
		}
	}
	return g.R.IntN(4)
}

func (g *Gen) arrLit(d int) *Node {
	n := g.size()
	els := make([]*Node, n)
	elemT := T(g.R.IntN(4))
	if g.chance(20) {
		elemT = TAny
	}
	for i := range els {
		if d <= 0 {
			els[i] = g.leaf(elemT)
		} else {
			els[i] = g.Expr(elemT, d-1)
		}
	}
	return MkArr(els...)
}

func (g *Gen) keyLit() *Node {
	switch g.R.IntN(8) {
	case 0:
		return Lit(int64(g.R.IntN(6)))
	case 1:
		return Lit(float64(g.R.IntN(4)) + 0.5)
	case 2:
		return Lit(g.chance(50))
	case 3:
		return MkArr(Lit(int64(g.R.IntN(3))))
	default:
		return Lit([]string{"a", "b", "c", "k", "key", "z", "x1", "value"}[g.R.IntN(8)])
	}
}

func (g *Gen) mapLit(d int) *Node {
	n := g.size()
	if n > 12 {
		n = 12
	}
	kids := make([]*Node, 0, 2*n)
	for i := 0; i < n; i++ {
		k := g.keyLit()
		if i >= 6 { // make sure big maps really have many distinct keys
			k = Lit(fmt.Sprintf("k%d", i))
		}
		var v *Node
		if d <= 0 {
			v = g.leaf(T(g.R.IntN(4)))
		} else {
			v = g.Expr(T(g.R.IntN(4)), d-1)
		}
		kids = append(kids, k, v)
	}
	return &Node{K: KMap, Kids: kids}
}

func (g *Gen) leaf(t T) *Node {
	if vs := g.visible(t); len(vs) > 0 && g.chance(55) {
		return Id(vs[g.R.IntN(len(vs))].name)
	}
	switch t {
	case TInt:
		return g.intLit()
	case TFloat:
		return g.floatLit()
	case TBool:
		return Lit(g.chance(50))
	case TStr:
		return g.strLit()
	case TNil:
		return Lit(Nil{})
	case TArr:
		return g.arrLit(0)
	case TMap:
		return g.mapLit(0)
	}
	return g.leaf(T(g.R.IntN(5)))
}

var intOps = []string{"+", "-", "*", "/", "%", "&", "|", "^", "<<", ">>"}
var cmpOps = []string{"==", "!=", "<", ">", "<=", ">="}

// Expr generates an expression that (usually) has type t.
func (g *Gen) Expr(t T, d int) *Node { //nolint:gocyclo,funlen // grammar
	if g.chance(g.IllTyped) {
		t = T(g.R.IntN(7))
	}
	if d <= 0 {
		return g.leaf(t)
	}
	g.budget++
	switch t {
	case TInt:
		switch g.R.IntN(14) {
		case 0, 1, 2:
			return g.leaf(TInt)
		case 3, 4, 5:
			op := intOps[g.R.IntN(len(intOps))]
			r := g.Expr(TInt, d-1)
			if (op == "<<" || op == ">>") && g.chance(85) {
				r = Lit(int64(g.R.IntN(70)))
			}
			if (op == "/" || op == "%") && g.chance(85) {
				r = Lit(int64(1 + g.R.IntN(9)))
			}
			return In(op, g.Expr(TInt, d-1), r)
		case 6:
			return Pre([]string{"-", "~", "^", "+"}[g.R.IntN(4)], g.Expr(TInt, d-1))
		case 7:
			return Bi("len", g.Expr([]T{TStr, TArr, TMap}[g.R.IntN(3)], d-1))
		case 8:
			return Idx(g.Expr(TArr, d-1), g.indexExpr(d-1))
		case 9:
			return Idx(g.Expr(TStr, d-1), g.indexExpr(d-1))
		case 10:
			return g.callExpr(TInt, d)
		case 11:
			return g.ifExpr(TInt, d)
		case 12:
			if vs := g.writable(TInt); len(vs) > 0 {
				v := vs[g.R.IntN(len(vs))]
				return &Node{K: KIncDec, Op: []string{"++", "--"}[g.R.IntN(2)], Name: v.name, Pre: g.chance(50)}
			}
			return g.leaf(TInt)
		default:
			return In("+", g.Expr(TInt, d-1), g.Expr(TInt, d-1))
		}
	case TFloat:
		switch g.R.IntN(6) {
		case 0, 1:
			return g.leaf(TFloat)
		case 2, 3:
			l, r := g.Expr(TFloat, d-1), g.Expr(TFloat, d-1)
			if g.chance(40) {
				l = g.Expr(TInt, d-1)
			}
			return In([]string{"+", "-", "*", "/", "%"}[g.R.IntN(5)], l, r)
		case 4:
			return Pre("-", g.Expr(TFloat, d-1))
		default:
			return g.ifExpr(TFloat, d)
		}
	case TBool:
		switch g.R.IntN(9) {
		case 0:
			return g.leaf(TBool)
		case 1, 2, 3:
			ot := T(g.R.IntN(4))
			l, r := g.Expr(ot, d-1), g.Expr(ot, d-1)
			if g.chance(25) {
				r = g.Expr(T(g.R.IntN(7)), d-1) // cross-type comparisons are defined by the total order
			}
			return In(cmpOps[g.R.IntN(len(cmpOps))], l, r)
		case 4, 5:
			return In([]string{"&&", "||"}[g.R.IntN(2)], g.Expr(TBool, d-1), g.Expr(TBool, d-1))
		case 6:
			return Pre("!", g.Expr(TBool, d-1))
		case 7:
			return In([]string{"==", "!="}[g.R.IntN(2)], g.Expr([]T{TArr, TMap}[g.R.IntN(2)], d-1), g.Expr([]T{TArr, TMap}[g.R.IntN(2)], d-1))
		default:
			// catch(...).err : did the operand end in an error
			return &Node{K: KDot, Kids: []*Node{Bi("catch", g.Expr(T(g.R.IntN(7)), d-1))}, Text: "err"}
		}
	case TStr:
		switch g.R.IntN(7) {
		case 0, 1:
			return g.leaf(TStr)
		case 2, 3:
			return In("+", g.Expr(TStr, d-1), g.Expr(TStr, d-1))
		case 4:
			return In("*", g.Expr(TStr, d-1), Lit(int64(g.R.IntN(4))))
		case 5:
			return g.sliceExpr(TStr, d)
		default:
			return Bi([]string{"first", "rest"}[g.R.IntN(2)], g.Expr(TStr, d-1))
		}
	case TNil:
		return g.leaf(TNil)
	case TArr:
		switch g.R.IntN(9) {
		case 0, 1:
			return g.leaf(TArr)
		case 2:
			return g.arrLit(d - 1)
		case 3:
			return In("+", g.Expr(TArr, d-1), g.Expr(TArr, d-1))
		case 4:
			return In("+", g.Expr(TArr, d-1), g.Expr(T(g.R.IntN(4)), d-1))
		case 5:
			return g.sliceExpr(TArr, d)
		case 6:
			return In(":", Lit(int64(g.R.IntN(4))), Lit(int64(3+g.R.IntN(9))))
		case 7:
			return Bi("rest", g.Expr(TArr, d-1))
		default:
			return In("*", g.Expr(TArr, d-1), Lit(int64(g.R.IntN(4))))
		}
	case TMap:
		switch g.R.IntN(6) {
		case 0, 1:
			return g.leaf(TMap)
		case 2:
			return g.mapLit(d - 1)
		case 3:
			return In("+", g.Expr(TMap, d-1), g.Expr(TMap, d-1))
		case 4:
			return g.sliceExpr(TMap, d)
		default:
			return Bi([]string{"first", "rest"}[g.R.IntN(2)], g.Expr(TMap, d-1))
		}
	}
	return g.Expr(T(g.R.IntN(7)), d)
}

func (g *Gen) indexExpr(d int) *Node {
	if g.chance(50) {
		return Lit(int64(g.R.IntN(12) - 4))
	}
	return g.Expr(TInt, d)
}

// loopValueProbe: a loop whose body ends in a variable of the enclosing scope that is changed just before the loop is left.
func (g *Gen) loopValueProbe() *Node {
	xv, ff, lv := g.fresh("v"), g.fresh("f"), g.fresh("i")
	t := []T{TInt, TStr, TArr}[g.R.IntN(3)]
	change := Assign(xv, g.Expr(t, 1))
	leave := &Node{K: KBreak}
	var loop *Node
	switch g.R.IntN(3) {
	case 0:
		loop = &Node{K: KFor, Op: "var", Name: lv, Kids: []*Node{Lit(int64(3))}}
	case 1:
		loop = &Node{K: KFor, Op: "list", Name: lv, Kids: []*Node{MkArr(Lit(int64(0)), Lit(int64(1)), Lit(int64(2)))}}
	default:
		loop = &Node{K: KFor, Op: "range", Name: lv, Kids: []*Node{Lit(int64(0)), Lit(int64(3))}}
	}
	loop.Body = []*Node{{K: KIf, Kids: []*Node{In("==", Id(lv), Lit(int64(2)))}, Body: []*Node{change, leave}}, Id(xv)}
	def := &Node{K: KFunc, Name: ff, Body: []*Node{loop}}
	g.declare(xv, t)
	return &Node{K: KIf, Kids: []*Node{Lit(true)}, Body: []*Node{Assign(xv, g.Expr(t, 1)), def, Bi("println", Call(Id(ff)), Id(xv)), Assign(xv, g.Expr(t, 1)), Bi("println", loop, Id(xv))}}
}

// orderProbe builds one construct whose sub-expressions are each wrapped in a call of a function that prints a tag
// and returns its argument, so the output shows the order (and number of times) in which they were evaluated.
func (g *Gen) orderProbe() *Node {
	tf, mv := g.fresh("f"), g.fresh("v")
	def := &Node{K: KFunc, Name: tf, Params: []string{"t", "v"}, Body: []*Node{Bi("println", Id("t")), Id("v")}}
	n := 0
	tr := func(e *Node) *Node { n++; return Call(Id(tf), Lit(int64(n)), e) }
	small := func() *Node { return Lit(int64(g.R.IntN(7) - 2)) }
	var e *Node
	switch g.R.IntN(10) {
	case 0:
		e = &Node{K: KSlice, Kids: []*Node{tr(g.Expr([]T{TArr, TStr}[g.R.IntN(2)], 1)), tr(small()), tr(small())}}
	case 1:
		e = &Node{K: KSlice, Kids: []*Node{g.Expr([]T{TArr, TStr}[g.R.IntN(2)], 1), tr(small()), tr([]*Node{small(), g.strLit(), g.floatLit()}[g.R.IntN(3)])}}
	case 2:
		e = Idx(tr(g.Expr([]T{TArr, TStr, TMap}[g.R.IntN(3)], 1)), tr(small()))
	case 3:
		op := []string{"+", "-", "*", "/", "<", "==", "&&", "||", "%", "!="}[g.R.IntN(10)]
		if op == "&&" || op == "||" {
			e = In(op, tr(Lit(g.chance(50))), In(op, tr(Lit(g.chance(50))), tr(Lit(g.chance(50)))))
		} else {
			e = In(op, tr(small()), In([]string{"+", "*", "-"}[g.R.IntN(3)], tr(small()), tr(small())))
		}
	case 4:
		e = Call(Id(tf), tr(small()), tr(g.Expr(T(g.R.IntN(4)), 1)))
	case 5:
		e = MkArr(tr(small()), tr(g.Expr(T(g.R.IntN(4)), 1)), tr(small()))
	case 6:
		e = &Node{K: KMap, Kids: []*Node{tr(small()), tr(small()), tr(g.strLit()), tr(g.Expr(T(g.R.IntN(4)), 1))}}
	case 7:
		e = &Node{K: KIdxAssign, Name: mv, Kids: []*Node{tr(small()), tr(g.Expr(T(g.R.IntN(4)), 1))}}
	case 8:
		e = Bi([]string{"println", "print", "len", "first"}[g.R.IntN(4)], tr(g.Expr([]T{TArr, TStr}[g.R.IntN(2)], 1)))
	default:
		e = &Node{K: KParen, Kids: []*Node{{K: KIf, Kids: []*Node{tr(Lit(g.chance(50)))}, Body: []*Node{tr(small())}, HasElse: true, Else: []*Node{tr(small())}}}}
	}
	init := &Node{K: KMap}
	if g.chance(50) {
		g.declare(mv, TArr)
		init = MkArr(small(), small(), small())
	} else {
		g.declare(mv, TMap)
	}
	// whether it failed and its value otherwise (an error's text is not compared)
	rv := g.fresh("v")
	failed := &Node{K: KDot, Kids: []*Node{Id(rv)}, Text: "err"}
	val := &Node{K: KIf, Kids: []*Node{failed}, Body: []*Node{Lit(Nil{})}, Else: []*Node{{K: KDot, Kids: []*Node{Id(rv)}, Text: "value"}}, HasElse: true}
	return &Node{K: KIf, Kids: []*Node{Lit(true)}, Body: []*Node{def, Assign(mv, init), Assign(rv, Bi("catch", e)), Bi("println", failed, val), Bi("println", Id(mv))}}
}

func (g *Gen) sliceExpr(t T, d int) *Node {
	n := &Node{K: KSlice, Kids: []*Node{g.Expr(t, d-1), Lit(int64(g.R.IntN(8) - 3))}}
	if g.chance(70) {
		n.Kids = append(n.Kids, Lit(int64(g.R.IntN(12)-3)))
	}
	return n
}

func (g *Gen) ifExpr(t T, d int) *Node {
	n := &Node{K: KIf, Kids: []*Node{g.Expr(TBool, d-1)}, Body: []*Node{g.Expr(t, d-1)}}
	if g.chance(80) {
		n.HasElse = true
		n.Else = []*Node{g.Expr(t, d-1)}
	}
	return &Node{K: KParen, Kids: []*Node{n}}
}

func (g *Gen) callExpr(t T, d int) *Node {
	var cands []finfo
	for _, f := range g.funcs {
		if f.ret == t || f.ret == TAny {
			cands = append(cands, f)
		}
	}
	if len(cands) == 0 {
		return g.leaf(t)
	}
	f := cands[g.R.IntN(len(cands))]
	args := make([]*Node, 0, len(f.params))
	for i, pt := range f.params {
		if i == 0 && f.rec {
			args = append(args, Lit(int64(g.R.IntN(5)))) // recursion fuel is always a small literal
			continue
		}
		args = append(args, g.Expr(pt, d-1))
	}
	if f.vari {
		for k := g.R.IntN(3); k > 0; k-- {
			args = append(args, g.Expr(TInt, d-1))
		}
	}
	return Call(Id(f.name), args...)
}

// Stmt generates one statement (and updates the scope model).
func (g *Gen) Stmt(d int) *Node { //nolint:gocyclo,funlen // grammar
	switch g.R.IntN(33) {
	case 32: // the value of a loop is the value its last body evaluation had then, not a live view of a variable
		return g.loopValueProbe()
	case 31: // order of evaluation: every operand of a construct announces itself when it is evaluated
		return g.orderProbe()
	case 29: // arguments and elements are values at the time they are evaluated: a later one changes the variable
		gv, hf, kf, ff := g.fresh("v"), g.fresh("f"), g.fresh("f"), g.fresh("f")
		t := []T{TArr, TInt, TStr}[g.R.IntN(3)]
		h := &Node{K: KFunc, Name: hf, Body: []*Node{Assign(gv, g.Expr(t, 1)), Lit(int64(0))}}
		k := &Node{K: KFunc, Name: kf, Params: []string{"a", "b"}, Body: []*Node{MkArr(Id("a"), Id("b"))}}
		var use *Node
		switch g.R.IntN(3) {
		case 0:
			use = Call(Id(kf), Id(gv), Call(Id(hf)))
		case 1:
			use = MkArr(Id(gv), Call(Id(hf)), Id(gv))
		default:
			use = MkArr(Bi("catch", Id(gv)), Call(Id(hf)))
		}
		f := &Node{K: KFunc, Name: ff, Body: []*Node{use}}
		g.declare(gv, t)
		return &Node{K: KIf, Kids: []*Node{Lit(true)}, Body: []*Node{Assign(gv, g.Expr(t, 1)), h, k, f, Bi("println", Call(Id(ff)), Id(gv))}}
	case 30: // an index assignment whose key fails, rest/first of one-character strings
		mv := g.fresh("v")
		g.declare(mv, TMap)
		return &Node{K: KIf, Kids: []*Node{Lit(true)}, Body: []*Node{
			Assign(mv, &Node{K: KMap}),
			Bi("println", Bi("catch", &Node{K: KIdxAssign, Name: mv, Kids: []*Node{In("/", g.intLit(), Lit(int64(0))), g.intLit()}}), Id(mv)),
			Bi("println", Bi("rest", Lit("é")), Bi("rest", Lit("a")), Bi("first", Lit("世")), Bi("rest", Lit("世界")), Bi("rest", Lit("")))}}
	case 28: // extra arguments of a variadic call are copies: the caller's variable changes after the call, the result does not
		xv, fv, gv := g.fresh("v"), g.fresh("f"), g.fresh("f")
		t := T(g.R.IntN(4))
		inner := &Node{K: KFunc, Name: fv, Params: []string{"a"}, Variadic: true, Body: []*Node{MkArr(Id("a"), Id(".."))}}
		outer := &Node{K: KFunc, Name: gv, Body: []*Node{Assign("r", Call(Id(fv), Id(xv), Id(xv))), Assign(xv, g.Expr(t, 1)), Id("r")}}
		g.declare(xv, t)
		return &Node{K: KIf, Kids: []*Node{Lit(true)}, Body: []*Node{Assign(xv, g.Expr(t, 1)), inner, outer, Bi("println", Call(Id(gv)), Id(xv))}}
	case 26, 27: // an integer parameter or counted-loop variable re-bound inside the body (to another type, or as a nested loop variable)
		name := g.fresh("i")
		var rebind *Node
		switch g.R.IntN(5) {
		case 0:
			rebind = Define(name, g.strLit())
		case 1:
			rebind = Define(name, In("*", Id(name), g.floatLit()))
		case 2:
			rebind = Define(name, MkArr(Id(name)))
		case 3:
			rebind = Assign(name, In("+", Id(name), g.intLit()))
		default:
			rebind = &Node{K: KFor, Op: "var", Name: name, Define: true, Kids: []*Node{Lit(int64(1 + g.R.IntN(3)))}, Body: []*Node{Bi("println", Id(name))}}
		}
		if g.chance(50) {
			body := []*Node{Bi("println", Id(name)), rebind}
			if rebind.K != KFor {
				body = append(body, Bi("println", Id(name)))
			}
			if g.chance(50) {
				return &Node{K: KFor, Op: "var", Name: name, Kids: []*Node{Lit(int64(2 + g.R.IntN(3)))}, Body: body}
			}
			return &Node{K: KFor, Op: "range", Name: name, Kids: []*Node{Lit(int64(1)), Lit(int64(2 + g.R.IntN(3)))}, Body: body}
		}
		fn := g.fresh("f")
		body := []*Node{rebind}
		if rebind.K != KFor {
			body = append(body, Id(name))
		}
		def := &Node{K: KFunc, Name: fn, Params: []string{name}, Body: body}
		return &Node{K: KIf, Kids: []*Node{Lit(true)}, Body: []*Node{def, Bi("println", Call(Id(fn), g.intLit()), Call(Id(fn), g.intLit()))}}
	case 23: // a function that only writes an outer variable, called twice with the same argument around a change of that variable
		gv, fn, pn := g.fresh("v"), g.fresh("f"), g.fresh("p")
		arg := g.intLit()
		var rhs *Node = Id(pn)
		if g.chance(60) {
			rhs = In([]string{"+", "*", "-"}[g.R.IntN(3)], Id(pn), g.intLit())
		}
		def := &Node{K: KFunc, Name: fn, Params: []string{pn}, Body: []*Node{Assign(gv, rhs)}}
		if g.chance(40) {
			lit := *def
			lit.Name = ""
			lit.Lambda = 1
			def = Assign(fn, &lit)
		}
		stmts := []*Node{Assign(gv, g.intLit()), def, Call(Id(fn), arg), Bi("println", Id(gv)), Assign(gv, g.intLit()), Call(Id(fn), arg), Bi("println", Id(gv))}
		g.declare(gv, TInt)
		return &Node{K: KIf, Kids: []*Node{Lit(true)}, Body: stmts}
	case 24, 25: // a variable of the current scope (parameters included) re-bound to a value of another type, with = or :=
		top := g.scopes[len(g.scopes)-1]
		var cand []vinfo
		for _, v := range top {
			if !v.ro && !IsConstant(v.name) && v.name != ".." {
				cand = append(cand, v)
			}
		}
		if len(cand) == 0 {
			return g.printStmt(d)
		}
		v := cand[g.R.IntN(len(cand))]
		t := T(g.R.IntN(7))
		n := Assign(v.name, g.Expr(t, d-1))
		n.Define = g.chance(50)
		g.declare(v.name, t)
		return n
	case 22: // slice then append twice, the source and both results stay observable (spare capacity must not be shared)
		a, b, c1, c2 := g.fresh("v"), g.fresh("v"), g.fresh("v"), g.fresh("v")
		n := 6 + g.R.IntN(12)
		els := make([]*Node, n)
		for i := range els {
			els[i] = Lit(int64(i))
		}
		hi := 1 + g.R.IntN(n)
		lo := g.R.IntN(hi + 1)
		if g.chance(60) {
			lo = 0
		}
		tail1, tail2 := g.Expr(TInt, 1), g.Expr(TInt, 1)
		if g.chance(40) {
			tail1 = MkArr(g.Expr(TInt, 1), g.Expr(TInt, 1))
		}
		stmts := []*Node{Assign(a, MkArr(els...)),
			Assign(b, &Node{K: KSlice, Kids: []*Node{Id(a), Lit(int64(lo)), Lit(int64(hi))}}),
			Assign(c1, In("+", Id(b), tail1)), Assign(c2, In("+", Id(b), tail2)),
			Bi("println", Id(a), Id(b), Id(c1), Id(c2))}
		for _, v := range []string{a, b, c1, c2} {
			g.declare(v, TArr)
		}
		return &Node{K: KIf, Kids: []*Node{Lit(true)}, Body: stmts}
	case 0, 1, 2, 3: // new / updated variable
		t := T(g.R.IntN(7))
		name := g.fresh("v")
		if vs := g.writable(t); len(vs) > 0 && g.chance(45) {
			name = vs[g.R.IntN(len(vs))].name
		}
		n := Assign(name, g.Expr(t, d))
		if g.chance(25) {
			n.Define = true
		}
		g.declare(name, t)
		return n
	case 4: // constant
		name := g.fresh("K")
		t := T(g.R.IntN(4))
		n := Assign(name, g.Expr(t, d-1))
		g.declare(name, t)
		return n
	case 5: // index assignment
		if vs := g.writable(TArr); len(vs) > 0 {
			v := vs[g.R.IntN(len(vs))]
			return &Node{K: KIdxAssign, Name: v.name, Kids: []*Node{Lit(int64(g.R.IntN(10) - 3)), g.Expr(T(g.R.IntN(4)), d-1)}}
		}
		return g.printStmt(d)
	case 6:
		if vs := g.writable(TMap); len(vs) > 0 {
			v := vs[g.R.IntN(len(vs))]
			if g.chance(40) {
				return &Node{K: KIdxAssign, Op: ".", Name: v.name, Text: []string{"a", "b", "k", "zz"}[g.R.IntN(4)], Kids: []*Node{nil, g.Expr(T(g.R.IntN(4)), d-1)}}
			}
			return &Node{K: KIdxAssign, Name: v.name, Kids: []*Node{g.keyLit(), g.Expr(T(g.R.IntN(4)), d-1)}}
		}
		return g.printStmt(d)
	case 7:
		if vs := g.writable(TMap); len(vs) > 0 {
			v := vs[g.R.IntN(len(vs))]
			return &Node{K: KDel, Op: "index", Name: v.name, Kids: []*Node{g.keyLit()}}
		}
		return g.printStmt(d)
	case 8, 9:
		return g.printStmt(d)
	case 10, 11:
		return g.ifStmt(d)
	case 12, 13, 14:
		return g.forStmt(d)
	case 15, 16:
		if g.inFunc < 2 && len(g.funcs) < 8 {
			return g.funcDef(d)
		}
		return g.printStmt(d)
	case 17:
		if !g.NoClosure && g.inFunc == 0 {
			return g.closureDef(d)
		}
		return g.printStmt(d)
	case 18:
		if g.inLoop > 0 && g.chance(60) {
			c := g.Expr(TBool, d-1)
			k := KBreak
			if g.chance(50) {
				k = KContinue
			}
			return &Node{K: KIf, Kids: []*Node{c}, Body: []*Node{{K: k}}}
		}
		return g.printStmt(d)
	case 19:
		if g.inFunc > 0 && g.chance(70) {
			c := g.Expr(TBool, d-1)
			return &Node{K: KIf, Kids: []*Node{c}, Body: []*Node{{K: KReturn, Kids: []*Node{g.Expr(T(g.R.IntN(5)), d-1)}}}}
		}
		return g.printStmt(d)
	case 20:
		if vs := g.writable(TInt); len(vs) > 0 {
			v := vs[g.R.IntN(len(vs))]
			return &Node{K: KIncDec, Op: []string{"++", "--"}[g.R.IntN(2)], Name: v.name, Pre: g.chance(50)}
		}
		return g.printStmt(d)
	default:
		return g.Expr(T(g.R.IntN(7)), d)
	}
}

func (g *Gen) printStmt(d int) *Node {
	if g.NoPrint {
		return g.Expr(T(g.R.IntN(7)), d)
	}
	n := 1 + g.R.IntN(3)
	args := make([]*Node, n)
	for i := range args {
		args[i] = g.Expr(T(g.R.IntN(7)), d-1)
	}
	return Bi([]string{"print", "println", "println"}[g.R.IntN(3)], args...)
}

func (g *Gen) blockStmts(n, d int) []*Node {
	out := make([]*Node, 0, n)
	for i := 0; i < n; i++ {
		out = append(out, g.Stmt(d))
	}
	return out
}

func (g *Gen) ifStmt(d int) *Node {
	n := &Node{K: KIf, Kids: []*Node{g.Expr(TBool, d-1)}}
	n.Body = g.blockStmts(1+g.R.IntN(2), d-1)
	if g.chance(60) {
		n.HasElse = true
		if g.chance(30) {
			n.Else = []*Node{g.ifStmt(d - 1)}
		} else {
			n.Else = g.blockStmts(1+g.R.IntN(2), d-1)
		}
	}
	return n
}

func (g *Gen) forStmt(d int) *Node {
	g.inLoop++
	defer func() { g.inLoop-- }()
	n := &Node{K: KFor}
	switch g.R.IntN(6) {
	case 0: // for cond with an explicit counter
		c := g.fresh("c")
		g.declareRO(c, TInt)
		lim := int64(1 + g.R.IntN(5))
		n.Op = "cond"
		n.Kids = []*Node{In("<", Id(c), Lit(lim))}
		body := []*Node{Assign(c, In("+", Id(c), Lit(int64(1))))}
		body = append(body, g.blockStmts(1+g.R.IntN(2), d-1)...)
		n.Body = body
		// the counter initialisation precedes the loop: wrap both in an if true {...} block is not needed, emit as raw pair
		init := Assign(c, Lit(int64(0)))
		return &Node{K: KIf, Kids: []*Node{Lit(true)}, Body: []*Node{init, n}}
	case 1: // for n
		n.Op = "count"
		n.Kids = []*Node{Lit(int64(g.R.IntN(5)))}
	case 2: // for i = n
		n.Op = "var"
		n.Name = g.fresh("i")
		n.Kids = []*Node{Lit(int64(g.R.IntN(5)))}
		g.declareRO(n.Name, TInt)
	case 3: // for i = a:b
		n.Op = "range"
		n.Name = g.fresh("i")
		a := int64(g.R.IntN(6) - 2)
		n.Kids = []*Node{Lit(a), Lit(a + int64(g.R.IntN(5)))}
		g.declareRO(n.Name, TInt)
	default: // for x = container/string
		n.Op = "list"
		n.Name = g.fresh("e")
		ct := []T{TArr, TMap, TStr}[g.R.IntN(3)]
		n.Kids = []*Node{g.Expr(ct, d-1)}
		et := TAny
		switch ct {
		case TStr:
			et = TStr
		case TMap:
			et = TMap
		}
		g.declareRO(n.Name, et)
	}
	n.Body = g.blockStmts(1+g.R.IntN(3), d-1)
	g.undeclare(n.Name) // what a loop variable holds after its loop is not specified: never read it there
	return n
}

func (g *Gen) undeclare(name string) {
	if name == "" {
		return
	}
	top := len(g.scopes) - 1
	for i, v := range g.scopes[top] {
		if v.name == name {
			g.scopes[top] = append(g.scopes[top][:i], g.scopes[top][i+1:]...)
			return
		}
	}
}

func (g *Gen) funcDef(d int) *Node {
	name := g.fresh("f")
	np := g.R.IntN(4)
	params := make([]string, np)
	ptypes := make([]T, np)
	g.scopes = append(g.scopes, nil)
	g.inFunc++
	savedLoop := g.inLoop
	g.inLoop = 0
	for i := range params {
		params[i] = g.fresh("p")
		ptypes[i] = T(g.R.IntN(7))
		if g.chance(50) {
			g.declare(params[i], ptypes[i]) // parameters are ordinary local variables: the body may re-bind them
		} else {
			g.declareRO(params[i], ptypes[i])
		}
	}
	vari := g.chance(12)
	if vari {
		g.declareRO("..", TArr)
	}
	ret := T(g.R.IntN(5))
	recursive := g.chance(30)
	var body []*Node
	fuel := ""
	if recursive {
		// first parameter is the fuel
		fuel = g.fresh("n")
		params = append([]string{fuel}, params...)
		ptypes = append([]T{TInt}, ptypes...)
		g.declareRO(fuel, TInt)
		body = append(body, &Node{K: KIf, Kids: []*Node{In("<=", Id(fuel), Lit(int64(0)))}, Body: []*Node{{K: KReturn, Kids: []*Node{g.Expr(ret, 1)}}}})
	}
	body = append(body, g.blockStmts(1+g.R.IntN(3), d-1)...)
	if recursive {
		args := []*Node{In("-", Id(fuel), Lit(int64(1)))}
		for _, pt := range ptypes[1:] {
			args = append(args, g.Expr(pt, 1))
		}
		callee := Id(name)
		if g.chance(30) {
			callee = Id("self")
		}
		rec := Call(callee, args...)
		tmp := g.fresh("r")
		if g.chance(50) {
			body = append(body, Define(tmp, rec))
		} else {
			body = append(body, Assign(tmp, rec))
		}
		g.declare(tmp, ret)
		body = append(body, g.blockStmts(g.R.IntN(2), d-1)...)
	}
	body = append(body, g.Expr(ret, d-1))
	g.scopes = g.scopes[:len(g.scopes)-1]
	g.inFunc--
	g.inLoop = savedLoop
	n := &Node{K: KFunc, Name: name, Params: params, Variadic: vari, Body: body}
	style := g.R.IntN(4)
	g.funcs = append(g.funcs, finfo{name: name, params: ptypes, ret: ret, vari: vari, rec: recursive})
	switch style {
	case 0, 1:
		return n
	case 2: // name = func(...) {...}
		lit := *n
		lit.Name = ""
		return Assign(name, &lit)
	default: // name = (...) => {...}
		lit := *n
		lit.Name = ""
		lit.Lambda = 1
		if recursive {
			return n // a lambda has no name to recurse through (self is exercised inside named functions)
		}
		return Assign(name, &lit)
	}
}

func (g *Gen) closureDef(d int) *Node {
	// mkN = func(start) { c := start; () => { c = c + step; c } } ; each call site passes a distinct literal
	mk := g.fresh("mk")
	c := g.fresh("c")
	inner := &Node{K: KFunc, Lambda: 1, Body: []*Node{Assign(c, In("+", Id(c), Lit(int64(1+g.R.IntN(3))))), Id(c)}}
	outer := &Node{K: KFunc, Name: mk, Params: []string{"s" + c}, Body: []*Node{Define(c, Id("s"+c)), inner}}
	h1, h2 := g.fresh("h"), g.fresh("h")
	g.uniq++
	a1 := Lit(int64(g.uniq * 10))
	g.uniq++
	a2 := Lit(int64(g.uniq * 10))
	stmts := []*Node{outer, Assign(h1, Call(Id(mk), a1)), Assign(h2, Call(Id(mk), a2)),
		Bi("println", Call(Id(h1)), Call(Id(h1)), Call(Id(h2)), Call(Id(h1)))}
	g.funcs = append(g.funcs, finfo{name: h1, ret: TInt}, finfo{name: h2, ret: TInt})
	return &Node{K: KIf, Kids: []*Node{Lit(true)}, Body: stmts}
}

// Program generates n top-level statements followed by a final observation of some variables.
func (g *Gen) Program(n, d int) []*Node {
	out := g.blockStmts(n, d)
	// observe a few variables at the end so that silent state corruption is visible
	vs := g.visible(TAny)
	var obs []*Node
	for i := 0; i < len(vs) && i < 6; i++ {
		v := vs[g.R.IntN(len(vs))]
		obs = append(obs, Id(v.name))
	}
	if len(obs) > 0 {
		out = append(out, MkArr(obs...))
	}
	return out
}

// DeclareRO adds a read-only variable to the current scope (used by monitors that build templates).
func (g *Gen) DeclareRO(name string, t T) { g.declareRO(name, t) }
