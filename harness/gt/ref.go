package gt

import (
	"fmt"
	"math"
	"math/big"
	"sort"
	"strconv"
	"strings"
	"unicode/utf8"
)

// ---- values ----

// Val is a reference-evaluator value: int64, float64, bool, string, Nil, *Arr, *Map, *Fn, *Err.
type Val interface{}

// Nil is the nil value.
type Nil struct{}

// Arr is an immutable array.
type Arr struct{ E []Val }

// KV is a map pair.
type KV struct{ K, V Val }

// Map is an immutable map sorted by key order with unique keys. Big mirrors whether the real interpreter
// holds this map in its "large" representation (more than 4 pairs at some point of its history); it is used
// only to decide which runs fall under the known aliasing finding, never for results.
type Map struct {
	P   []KV
	Big bool
}

// Fn is a function value (closure).
type Fn struct {
	Decl *Node
	Env  *Env
	Key  string
}

// ErrText stands for the text of a caught error message, whose wording is not part of the semantics:
// it compares equal to any string and a run that prints or returns it is not compared on that part.
type ErrText struct{}

// ErrTextMarker is what ErrText prints as.
const ErrTextMarker = "\x00ERRMSG\x00"

// Err is an error value.
type Err struct{ Msg string }

type ctl struct {
	kind string // "return", "break", "continue"
	v    Val
}

// Env is one scope (global or one function call).
type Env struct {
	vars  map[string]Val
	outer *Env
	fn    *Fn
	key   string
}

// Ref is the reference interpreter.
type Ref struct {
	// BigInPlace is set when the program index-assigns or deletes in an array of more than 8 elements or a map
	// of more than 4 pairs: the real interpreter updates those in place (known finding on aliasing), so monitors
	// other than the aliasing one do not compare such runs.
	BigInPlace bool
	// Exhausted is set once the step or data budget was exceeded: the run is unusable.
	Exhausted bool
	Out       strings.Builder
	Global    *Env
	env       *Env
	Steps     int
	Max       int // step budget (0 = default)
	depth     int
	// Ext lets a monitor add deterministic extension functions (e.g. verif_tick).
	Ext map[string]func(args []Val) Val
}

// ErrTooLarge marks operations the reference refuses to carry out (huge repeats/ranges): the case is not compared.
const ErrTooLarge = "too large for the reference"

// ErrBudget is returned (as *Err) when the step budget is exhausted: the case is discarded, not compared.
const ErrBudget = "reference step budget exhausted"

// NewRef makes an interpreter with the pre-seeded identifiers of a fresh grol state.
func NewRef() *Ref {
	g := &Env{vars: map[string]Val{}}
	g.vars["nil"] = Nil{}
	g.vars["null"] = Nil{}
	g.vars["NaN"] = math.NaN()
	g.vars["Inf"] = math.Inf(1)
	g.vars["PI"] = math.Pi
	g.vars["E"] = math.E
	return &Ref{Global: g, env: g}
}

// IsErr tells whether v is an error value.
func IsErr(v Val) bool { _, ok := v.(*Err); return ok }

func errf(f string, a ...any) *Err { return &Err{Msg: fmt.Sprintf(f, a...)} }

// ---- ordering, equality, printing ----

func rank(v Val) int {
	switch v.(type) {
	case int64:
		return 1
	case float64:
		return 2
	case bool:
		return 3
	case Nil:
		return 4
	case *Err:
		return 5
	case *Fn:
		return 7
	case string, ErrText:
		return 8
	case *Arr:
		return 9
	case *Map:
		return 10
	}
	return 99
}

func cmpFloat(a, b float64) int { // NaN sorts before everything, NaN == NaN (Go's cmp.Compare)
	an, bn := math.IsNaN(a), math.IsNaN(b)
	switch {
	case an && bn:
		return 0
	case an:
		return -1
	case bn:
		return 1
	case a < b:
		return -1
	case a > b:
		return 1
	}
	return 0
}

// cmpIntFloatExact orders an integer and a float by their exact numeric values (NaN first).
func cmpIntFloatExact(i int64, f float64) int {
	switch {
	case math.IsNaN(f):
		return 1
	case math.IsInf(f, 1):
		return -1
	case math.IsInf(f, -1):
		return 1
	}
	return new(big.Float).SetInt64(i).Cmp(new(big.Float).SetFloat64(f))
}

// Cmp is the documented total order.
func Cmp(a, b Val) int {
	ra, rb := rank(a), rank(b)
	if ra <= 2 && rb <= 2 && ra != rb {
		if ra == 1 {
			return cmpIntFloatExact(a.(int64), b.(float64))
		}
		return -cmpIntFloatExact(b.(int64), a.(float64))
	}
	if ra != rb {
		if ra < rb {
			return -1
		}
		return 1
	}
	switch x := a.(type) {
	case int64:
		y := b.(int64)
		switch {
		case x < y:
			return -1
		case x > y:
			return 1
		}
		return 0
	case float64:
		return cmpFloat(x, b.(float64))
	case bool:
		y := b.(bool)
		switch {
		case x == y:
			return 0
		case x:
			return 1
		}
		return -1
	case Nil:
		return 0
	case string:
		return strings.Compare(x, b.(string))
	case *Err:
		return strings.Compare(x.Msg, b.(*Err).Msg)
	case *Fn:
		return strings.Compare(x.Key, b.(*Fn).Key)
	case *Arr:
		y := b.(*Arr)
		if len(x.E) != len(y.E) {
			if len(x.E) < len(y.E) {
				return -1
			}
			return 1
		}
		for i := range x.E {
			if c := Cmp(x.E[i], y.E[i]); c != 0 {
				return c
			}
		}
		return 0
	case *Map:
		y := b.(*Map)
		if len(x.P) != len(y.P) {
			if len(x.P) < len(y.P) {
				return -1
			}
			return 1
		}
		for i := range x.P {
			if c := Cmp(x.P[i].K, y.P[i].K); c != 0 {
				return c
			}
			if c := Cmp(x.P[i].V, y.P[i].V); c != 0 {
				return c
			}
		}
		return 0
	}
	return 1
}

// Equals is == : same type class (int != float) and order-equal.
func Equals(a, b Val) bool { return rank(a) == rank(b) && Cmp(a, b) == 0 }

// Same is structural identity used to compare with grol's result (floats by bits, all NaNs equal).
func Same(a, b Val) bool {
	switch x := a.(type) {
	case float64:
		y, ok := b.(float64)
		if !ok {
			return false
		}
		return (math.IsNaN(x) && math.IsNaN(y)) || math.Float64bits(x) == math.Float64bits(y)
	case *Arr:
		y, ok := b.(*Arr)
		if !ok || len(x.E) != len(y.E) {
			return false
		}
		for i := range x.E {
			if !Same(x.E[i], y.E[i]) {
				return false
			}
		}
		return true
	case *Map:
		y, ok := b.(*Map)
		if !ok || len(x.P) != len(y.P) {
			return false
		}
		for i := range x.P {
			if !Same(x.P[i].K, y.P[i].K) || !Same(x.P[i].V, y.P[i].V) {
				return false
			}
		}
		return true
	case *Fn:
		_, ok := b.(*Fn)
		return ok
	case *Err:
		_, ok := b.(*Err)
		return ok
	case ErrText:
		_, ok := b.(string)
		return ok
	}
	return a == b
}

// Inspect is the documented printed form of a value.
func Inspect(v Val) string {
	switch x := v.(type) {
	case int64:
		return strconv.FormatInt(x, 10)
	case float64:
		return strconv.FormatFloat(x, 'f', -1, 64)
	case bool:
		return strconv.FormatBool(x)
	case string:
		return strconv.Quote(x)
	case Nil:
		return "nil"
	case ErrText:
		return ErrTextMarker
	case *Err:
		return "<err: " + x.Msg + ">"
	case *Fn:
		return "<function>"
	case *Arr:
		parts := make([]string, len(x.E))
		for i, e := range x.E {
			parts[i] = Inspect(e)
		}
		return "[" + strings.Join(parts, ",") + "]"
	case *Map:
		parts := make([]string, len(x.P))
		for i, p := range x.P {
			parts[i] = Inspect(p.K) + ":" + Inspect(p.V)
		}
		return "{" + strings.Join(parts, ",") + "}"
	}
	return fmt.Sprintf("?%T", v)
}

// ContainsFn reports whether a value holds a function (whose printed form is not compared).
func ContainsFn(v Val) bool {
	switch x := v.(type) {
	case *Fn:
		return true
	case *Arr:
		for _, e := range x.E {
			if ContainsFn(e) {
				return true
			}
		}
	case *Map:
		for _, p := range x.P {
			if ContainsFn(p.K) || ContainsFn(p.V) {
				return true
			}
		}
	}
	return false
}

// MapSet returns a new map with k set.
func MapSet(m *Map, k, v Val) *Map {
	i := sort.Search(len(m.P), func(i int) bool { return Cmp(m.P[i].K, k) >= 0 })
	np := make([]KV, 0, len(m.P)+1)
	np = append(np, m.P[:i]...)
	if i < len(m.P) && Cmp(m.P[i].K, k) == 0 {
		np = append(np, KV{m.P[i].K, v}) // an update keeps the key that is already there (2 stays 2 when 2.0 is set)
		np = append(np, m.P[i+1:]...)
	} else {
		np = append(np, KV{k, v})
		np = append(np, m.P[i:]...)
	}
	return &Map{P: np, Big: m.Big || len(np) > 4}
}

// MapGet looks a key up.
func MapGet(m *Map, k Val) (Val, bool) {
	i := sort.Search(len(m.P), func(i int) bool { return Cmp(m.P[i].K, k) >= 0 })
	if i < len(m.P) && Cmp(m.P[i].K, k) == 0 {
		return m.P[i].V, true
	}
	return Nil{}, false
}

// MapDel returns a new map without k.
func MapDel(m *Map, k Val) (*Map, bool) {
	i := sort.Search(len(m.P), func(i int) bool { return Cmp(m.P[i].K, k) >= 0 })
	if i < len(m.P) && Cmp(m.P[i].K, k) == 0 {
		np := append(append([]KV{}, m.P[:i]...), m.P[i+1:]...)
		return &Map{P: np, Big: m.Big}, true
	}
	return m, false
}

func kvMap(k, v Val) *Map {
	return &Map{P: []KV{{"key", k}, {"value", v}}}
}

// ---- scopes ----

// IsConstant: all upper-case identifier (digits and _ allowed after the first letter).
func IsConstant(name string) bool {
	for i, c := range name {
		if i != 0 && (c == '_' || (c >= '0' && c <= '9')) {
			continue
		}
		if c < 'A' || c > 'Z' {
			return false
		}
	}
	return true
}

func (r *Ref) lookup(name string) (Val, bool) {
	e := r.env
	if name == "self" {
		if e.fn != nil {
			return e.fn, true
		}
		return nil, false
	}
	if e.fn != nil && e.fn.Decl.Name != "" && e.fn.Decl.Name == name {
		return e.fn, true
	}
	for x := e; x != nil; x = x.outer {
		if v, ok := x.vars[name]; ok {
			return v, true
		}
	}
	return nil, false
}

func (r *Ref) assign(name string, v Val, define bool) Val {
	if IsConstant(name) {
		if old, ok := r.lookup(name); ok && !sameConstant(old, v) {
			return errf("attempt to change constant %s", name)
		}
	}
	if define {
		r.env.vars[name] = v
		return v
	}
	for x := r.env; x != nil; x = x.outer {
		if _, ok := x.vars[name]; ok {
			x.vars[name] = v
			return v
		}
	}
	r.env.vars[name] = v
	return v
}

// sameConstant: a constant may only be bound again to the same value: equal, of the same type down to the elements
// (1 is not 1.0), with the same sign for a zero, and for functions the same text over the same captured scope.
func sameConstant(a, b Val) bool {
	if !Equals(a, b) {
		return false
	}
	return strictSame(a, b)
}

func strictSame(a, b Val) bool {
	switch x := a.(type) {
	case *Fn:
		y, ok := b.(*Fn)
		return ok && x.Key == y.Key && x.Env == y.Env
	case *Arr:
		y, ok := b.(*Arr)
		if !ok || len(x.E) != len(y.E) {
			return false
		}
		for i := range x.E {
			if !strictSame(x.E[i], y.E[i]) {
				return false
			}
		}
		return true
	case *Map:
		y, ok := b.(*Map)
		if !ok || len(x.P) != len(y.P) {
			return false
		}
		for i := range x.P {
			if !strictSame(x.P[i].K, y.P[i].K) || !strictSame(x.P[i].V, y.P[i].V) {
				return false
			}
		}
		return true
	}
	return Same(a, b)
}

// ---- evaluation ----

// Run evaluates a program (top-level statement list) like repl/EvalOne does: the result of a top-level
// return is unwrapped, break/continue outside loops are errors.
func (r *Ref) Run(stmts []*Node) Val {
	r.env = r.Global
	r.depth = 0
	v := r.block(stmts)
	return r.unwrapTop(v)
}

func (r *Ref) unwrapTop(v Val) Val {
	if c, ok := v.(*ctl); ok {
		if c.kind != "return" {
			return errf("unexpected control type %s outside of for loops", c.kind)
		}
		return c.v
	}
	return v
}

func unparen(n *Node) *Node {
	for n.K == KParen {
		n = n.Kids[0]
	}
	return n
}

// deepSize counts the scalars reachable in v, giving up beyond limit.
func deepSize(v Val, limit int) int {
	switch x := v.(type) {
	case *Arr:
		n := 1
		for _, e := range x.E {
			n += deepSize(e, limit-n)
			if n > limit {
				return n
			}
		}
		return n
	case *Map:
		n := 1
		for _, p := range x.P {
			n += deepSize(p.K, limit-n) + deepSize(p.V, limit-n)
			if n > limit {
				return n
			}
		}
		return n
	case string:
		return 1 + len(x)/16
	}
	return 1
}

// big applies the data-size budget: values that grow exponentially make the case unusable, not wrong.
func (r *Ref) big(v Val) Val {
	if deepSize(v, 20000) > 20000 {
		r.Exhausted = true
		return &Err{Msg: ErrBudget}
	}
	return v
}

func (r *Ref) tick() bool {
	r.Steps++
	m := r.Max
	if m == 0 {
		m = 400000
	}
	if r.Steps > m {
		r.Exhausted = true // sticky: an error swallowed on the way up must not hide it
	}
	return r.Steps > m
}

func (r *Ref) block(stmts []*Node) Val {
	var res Val = Nil{}
	for _, s := range stmts {
		res = r.eval(s)
		switch res.(type) {
		case *ctl, *Err:
			return res
		}
	}
	return res
}

// evalU evaluates and unwraps a return control like grol's Eval() does for operands.
func (r *Ref) evalU(n *Node) Val {
	return r.unwrapTop(r.eval(n))
}

func (r *Ref) eval(n *Node) Val { //nolint:gocyclo,funlen // node kinds
	if r.tick() {
		return &Err{Msg: ErrBudget}
	}
	switch n.K {
	case KLit:
		return n.V
	case KParen:
		return r.eval(n.Kids[0])
	case KIdent:
		if f, ok := r.Ext[n.Name]; ok {
			_ = f
			return errf("extension used as a value")
		}
		v, ok := r.lookup(n.Name)
		if !ok {
			return errf("identifier not found: %s", n.Name)
		}
		return v
	case KPrefix:
		x := r.evalU(n.Kids[0])
		if IsErr(x) {
			return x
		}
		return r.prefix(n.Op, x)
	case KIncDec:
		old, ok := r.lookup(n.Name)
		if !ok {
			return errf("identifier not found: %s", n.Name)
		}
		d := int64(1)
		if n.Op == "--" {
			d = -1
		}
		var nv Val
		switch x := old.(type) {
		case int64:
			nv = x + d
		case float64:
			nv = x + float64(d)
		default:
			return errf("can't increment/decrement")
		}
		res := r.assign(n.Name, nv, false)
		if IsErr(res) {
			return res
		}
		if n.Pre {
			return nv
		}
		return old
	case KInfix:
		return r.infix(n)
	case KAssign:
		v := r.evalU(n.Kids[0])
		if IsErr(v) {
			return v
		}
		return r.assign(n.Name, v, n.Define)
	case KIdxAssign:
		return r.idxAssign(n)
	case KIndex:
		if rng := unparen(n.Kids[1]); rng.K == KInfix && rng.Op == ":" {
			// a[x:y] is a slice however the range is spelled (a[(x:y)] too)
			return r.slice(&Node{K: KSlice, Kids: []*Node{n.Kids[0], rng.Kids[0], rng.Kids[1]}})
		}
		l := r.evalU(n.Kids[0])
		if IsErr(l) {
			return l
		}
		i := r.evalU(n.Kids[1])
		if IsErr(i) {
			return i
		}
		return index(l, i)
	case KDot:
		l := r.evalU(n.Kids[0])
		if IsErr(l) {
			return l
		}
		return index(l, n.Text)
	case KSlice:
		return r.slice(n)
	case KCall:
		return r.call(n)
	case KBuiltin:
		return r.builtin(n)
	case KDel:
		return r.del(n)
	case KArray:
		els := make([]Val, 0, len(n.Kids))
		for _, k := range n.Kids {
			v := r.eval(k)
			if IsErr(v) {
				return v
			}
			if c, ok := v.(*ctl); ok { // return inside a literal: not generated
				return c
			}
			els = append(els, v)
		}
		return r.big(&Arr{els})
	case KMap:
		m := &Map{}
		for i := 0; i+1 < len(n.Kids); i += 2 {
			k := r.evalU(n.Kids[i])
			if IsErr(k) {
				return k
			}
			v := r.evalU(n.Kids[i+1])
			if IsErr(v) {
				return v
			}
			m = MapSet(m, k, v)
		}
		m.Big = len(n.Kids)/2 > 4 // sized by the number of pairs written, duplicates included
		return r.big(m)
	case KFunc:
		f := &Fn{Decl: n, Env: r.env, Key: FuncKey(n)}
		if n.Name != "" {
			if res := r.assign(n.Name, f, false); IsErr(res) {
				return res
			}
		}
		return f
	case KIf:
		c := r.eval(n.Kids[0])
		if IsErr(c) {
			return c
		}
		switch c {
		case true:
			return r.block(n.Body)
		case false:
			if !n.HasElse {
				return Nil{}
			}
			return r.block(n.Else)
		}
		return errf("condition is not a boolean")
	case KFor:
		return r.forLoop(n)
	case KReturn:
		if len(n.Kids) == 0 {
			return &ctl{"return", Nil{}}
		}
		v := r.eval(n.Kids[0])
		if c, ok := v.(*ctl); ok {
			return c
		}
		return &ctl{"return", v}
	case KBreak:
		return &ctl{"break", Nil{}}
	case KContinue:
		return &ctl{"continue", Nil{}}
	}
	return errf("unknown node")
}

func (r *Ref) prefix(op string, x Val) Val {
	switch op {
	case "!":
		switch x {
		case true:
			return false
		case false:
			return true
		}
		if _, ok := x.(Nil); ok {
			return true
		}
		return errf("not of non boolean")
	case "-":
		switch v := x.(type) {
		case int64:
			return -v
		case float64:
			return -v
		}
		return errf("minus of non number")
	case "~", "^":
		if v, ok := x.(int64); ok {
			return ^v
		}
		return errf("bitwise not of non integer")
	case "+":
		return x
	}
	return errf("unknown prefix operator")
}

func (r *Ref) infix(n *Node) Val {
	op := n.Op
	l := r.evalU(n.Kids[0])
	if IsErr(l) {
		return l
	}
	if op == "&&" && l == false {
		return false
	}
	if op == "||" && l == true {
		return true
	}
	if _, isStr := l.(string); isStr && op == "|" && unparen(n.Kids[1]).K == KCall {
		// the documented pipe operator: string | call(...) evaluates the call (the string is its piped input)
		return r.evalU(n.Kids[1])
	}
	rv := r.evalU(n.Kids[1])
	if IsErr(rv) {
		return rv
	}
	if op == "*" {
		// a huge repeat count meets the interpreter's memory guard, which is a panic (not catchable): outside the model
		if cnt, ok := rv.(int64); ok && cnt > 1<<22 {
			switch l.(type) {
			case string, *Arr:
				r.Exhausted = true
				return &Err{Msg: ErrBudget}
			}
		}
	}
	return r.big(Binary(op, l, rv))
}

// Binary applies a binary operator to two values.
func Binary(op string, l, rv Val) Val { //nolint:gocyclo,funlen // operator table
	switch op {
	case "==":
		return Equals(l, rv)
	case "!=":
		return !Equals(l, rv)
	case ">":
		return Cmp(l, rv) == 1
	case "<":
		return Cmp(l, rv) == -1
	case ">=":
		return Cmp(l, rv) >= 0
	case "<=":
		return Cmp(l, rv) <= 0
	case "&&":
		return l == true && rv == true
	case "||":
		return l == true || rv == true
	}
	li, lInt := l.(int64)
	ri, rInt := rv.(int64)
	_, lF := l.(float64)
	_, rF := rv.(float64)
	switch {
	case lInt && rInt:
		switch op {
		case "+":
			return li + ri
		case "-":
			return li - ri
		case "*":
			return li * ri
		case "/":
			if ri == 0 {
				return errf("division by zero")
			}
			if li == math.MinInt64 && ri == -1 {
				return li
			}
			return li / ri
		case "%":
			if ri == 0 {
				return errf("modulo by zero")
			}
			if ri == -1 {
				return int64(0)
			}
			return li % ri
		case "<<":
			if ri < 0 {
				return errf("negative shift")
			}
			if ri >= 64 {
				return int64(0)
			}
			return li << uint(ri)
		case ">>":
			if ri < 0 {
				return errf("negative shift")
			}
			if ri >= 64 {
				return int64(0)
			}
			return int64(uint64(li) >> uint(ri))
		case "&":
			return li & ri
		case "|":
			return li | ri
		case "^":
			return li ^ ri
		case ":":
			if ri-li < 0 {
				return errf("range index invalid")
			}
			if ri-li > 100000 {
				return errf("range too large for the reference") // never generated
			}
			out := make([]Val, 0, ri-li)
			for i := li; i < ri; i++ {
				out = append(out, i)
			}
			return &Arr{out}
		}
		return errf("unknown operator on integers")
	case lF || rF:
		if _, isArr := l.(*Arr); isArr {
			break // an array on the left: + appends whatever the right operand is ([1] + 1.5), handled below
		}
		var a, b float64
		switch x := l.(type) {
		case int64:
			a = float64(x)
		case float64:
			a = x
		default:
			return errf("not converting to float")
		}
		switch x := rv.(type) {
		case int64:
			b = float64(x)
		case float64:
			b = x
		default:
			return errf("not converting to float")
		}
		switch op {
		case "+":
			return a + b
		case "-":
			return a - b
		case "*":
			return a * b
		case "/":
			return a / b
		case "%":
			return math.Mod(a, b)
		}
		return errf("unknown operator on floats")
	}
	switch lv := l.(type) {
	case string:
		if rs, ok := rv.(string); ok && op == "+" {
			return lv + rs
		}
		if op == "*" && rInt {
			if ri < 0 {
				return errf("negative repeat")
			}
			if ri > 0 && int64(len(lv)) > (1<<20)/ri {
				return errf("repeat too large for the reference") // never generated
			}
			return strings.Repeat(lv, int(ri))
		}
		return errf("unknown operator on string")
	case *Arr:
		switch op {
		case "*":
			if !rInt {
				return errf("array repeat by non integer")
			}
			if ri < 0 {
				return errf("negative repeat")
			}
			if len(lv.E) == 0 || ri == 0 {
				return &Arr{}
			}
			if int64(len(lv.E)) > (1<<16)/ri {
				return errf("repeat too large for the reference") // never generated
			}
			out := make([]Val, 0, len(lv.E)*int(ri))
			for i := int64(0); i < ri; i++ {
				out = append(out, lv.E...)
			}
			return &Arr{out}
		case "+":
			if ra, ok := rv.(*Arr); ok {
				return &Arr{append(append([]Val{}, lv.E...), ra.E...)}
			}
			return &Arr{append(append([]Val{}, lv.E...), rv)}
		}
		return errf("unknown operator on array")
	case *Map:
		if rm, ok := rv.(*Map); ok && op == "+" {
			out := &Map{P: lv.P, Big: lv.Big || len(rm.P) > 4}
			for _, p := range rm.P {
				out = MapSet(out, p.K, p.V)
			}
			return out
		}
	}
	return errf("no %s on these operands", op)
}

func index(l, i Val) Val {
	idx, isInt := i.(int64)
	if _, isNil := i.(Nil); isNil {
		idx, isInt = 0, true
	}
	switch x := l.(type) {
	case string:
		if isInt {
			if idx < 0 {
				idx += int64(len(x))
			}
			if idx < 0 || idx >= int64(len(x)) {
				return Nil{}
			}
			return int64(x[idx])
		}
	case *Arr:
		if isInt {
			if idx < 0 {
				idx += int64(len(x.E))
			}
			if idx < 0 || idx >= int64(len(x.E)) {
				return Nil{}
			}
			return x.E[idx]
		}
	case *Map:
		v, _ := MapGet(x, i)
		return v
	case Nil:
		return Nil{}
	}
	return errf("index operator not supported")
}

func length(v Val) int {
	switch x := v.(type) {
	case string:
		return len(x)
	case *Arr:
		return len(x.E)
	case *Map:
		return len(x.P)
	case Nil:
		return 0
	}
	return -1
}

func (r *Ref) slice(n *Node) Val {
	l := r.evalU(n.Kids[0])
	if IsErr(l) {
		return l
	}
	lo := r.evalU(n.Kids[1])
	var hi Val
	open := len(n.Kids) < 3 || n.Kids[2] == nil
	if !open {
		hi = r.evalU(n.Kids[2])
	}
	li, ok1 := lo.(int64)
	hv, ok2 := hi.(int64)
	if !ok1 || (!open && !ok2) {
		return errf("range index not integer")
	}
	num := int64(length(l))
	if li < 0 {
		li += num
	}
	if open {
		hv = num
	} else if hv < 0 {
		hv += num
	}
	if li < 0 {
		li = 0
	}
	if hv < 0 {
		hv = 0
	}
	if li > hv {
		return errf("range index invalid: left greater then right")
	}
	if li > num {
		li = num
	}
	if hv > num {
		hv = num
	}
	switch x := l.(type) {
	case string:
		return x[li:hv]
	case *Arr:
		return &Arr{append([]Val{}, x.E[li:hv]...)}
	case *Map:
		return &Map{P: append([]KV{}, x.P[li:hv]...), Big: x.Big && hv-li > 4}
	case Nil:
		return Nil{}
	}
	return errf("range index operator not supported")
}

func (r *Ref) idxAssign(n *Node) Val {
	// value first (right side of the assignment), then the index, like evalAssignment does.
	v := r.evalU(n.Kids[1])
	if IsErr(v) {
		return v
	}
	var idx Val
	if n.Op == "." {
		idx = n.Text
	} else {
		idx = r.evalU(n.Kids[0])
		if IsErr(idx) { // an index that fails makes the assignment fail (it is not stored as a key)
			return idx
		}
	}
	cur, ok := r.lookup(n.Name)
	if !ok {
		return errf("identifier not found: %s", n.Name)
	}
	switch x := cur.(type) {
	case *Arr:
		if len(x.E) > 8 {
			r.BigInPlace = true
		}
		i, isInt := idx.(int64)
		if !isInt {
			return errf("index assignment to array with non integer index")
		}
		if i < 0 {
			i += int64(len(x.E))
		}
		if i < 0 || i >= int64(len(x.E)) {
			return errf("index assignment out of bounds")
		}
		ne := append([]Val{}, x.E...)
		ne[i] = v
		if res := r.assign(n.Name, &Arr{ne}, false); IsErr(res) {
			return res
		}
		return v
	case *Map:
		if len(x.P) > 4 || x.Big {
			r.BigInPlace = true
		}
		if res := r.assign(n.Name, MapSet(x, idx, v), false); IsErr(res) {
			return res
		}
		return v
	}
	return errf("index assignment to unexpected type")
}

func (r *Ref) del(n *Node) Val {
	// n.Op: "name" (Name), "index" (Name, Kids[0]), "dot" (Name, Text key)
	switch n.Op {
	case "name":
		for x := r.env; x != nil; x = x.outer {
			if _, ok := x.vars[n.Name]; ok {
				delete(x.vars, n.Name)
				return true
			}
		}
		return false
	default:
		var k Val
		if n.Op == "dot" {
			k = n.Text
		} else {
			k = r.evalU(n.Kids[0])
			if IsErr(k) {
				return k
			}
		}
		cur, ok := r.lookup(n.Name)
		if !ok {
			return false
		}
		m, isMap := cur.(*Map)
		if !isMap {
			return errf("delete index on non map")
		}
		if len(m.P) > 4 || m.Big {
			r.BigInPlace = true
		}
		nm, changed := MapDel(m, k)
		if !changed {
			return false
		}
		if res := r.assign(n.Name, nm, false); IsErr(res) {
			return res
		}
		return true
	}
}

func (r *Ref) call(n *Node) Val {
	if n.Kids[0].K == KIdent {
		if ext, ok := r.Ext[n.Kids[0].Name]; ok {
			args := make([]Val, 0, len(n.Kids)-1)
			for _, a := range n.Kids[1:] {
				v := r.eval(a)
				if IsErr(v) {
					return v
				}
				args = append(args, v)
			}
			return ext(args)
		}
	}
	fv := r.evalU(n.Kids[0])
	if IsErr(fv) {
		return fv
	}
	args := make([]Val, 0, len(n.Kids)-1)
	for _, a := range n.Kids[1:] {
		v := r.eval(a)
		if IsErr(v) {
			return v
		}
		if c, ok := v.(*ctl); ok {
			return c
		}
		args = append(args, v)
	}
	f, ok := fv.(*Fn)
	if !ok {
		return errf("not a function")
	}
	return r.Apply(f, args)
}

// Apply calls a function value.
func (r *Ref) Apply(f *Fn, args []Val) Val {
	d := f.Decl
	parent := f.Env
	if r.env.key == f.Key && r.env.fn != nil {
		parent = r.env // a function calling itself parents on the caller's scope (grol issue #47)
	}
	if d.Variadic && len(args) > 0 {
		if last, ok := args[len(args)-1].(*Arr); ok {
			args = append(append([]Val{}, args[:len(args)-1]...), last.E...)
		}
	}
	np := len(d.Params)
	var extra []Val
	if d.Variadic {
		if len(args) >= np {
			extra = args[np:]
			args = args[:np]
		}
	}
	if len(args) != np {
		return errf("wrong number of arguments")
	}
	ne := &Env{vars: map[string]Val{}, outer: parent, fn: f, key: f.Key}
	for i, p := range d.Params {
		if IsConstant(p) {
			// parameters are forced creations but still go through the constant check
			if old, ok := lookupFrom(ne, p); ok && !Equals(old, args[i]) {
				return errf("attempt to change constant %s", p)
			}
		}
		ne.vars[p] = args[i]
	}
	if d.Variadic {
		ne.vars[".."] = &Arr{append([]Val{}, extra...)}
	}
	r.depth++
	if r.depth > 2000 {
		r.depth--
		r.Exhausted = true
		return &Err{Msg: ErrBudget}
	}
	saved := r.env
	r.env = ne
	res := r.block(d.Body)
	r.env = saved
	r.depth--
	return r.unwrapTop(res)
}

func lookupFrom(e *Env, name string) (Val, bool) {
	for x := e; x != nil; x = x.outer {
		if v, ok := x.vars[name]; ok {
			return v, true
		}
	}
	return nil, false
}

func printed(v Val) string {
	if s, ok := v.(string); ok {
		return s
	}
	return Inspect(v)
}

func (r *Ref) builtin(n *Node) Val { //nolint:gocyclo // builtins
	switch n.Op {
	case "print", "println", "error":
		if (n.Op == "print" || n.Op == "error") && len(n.Kids) < 1 {
			return errf("wrong number of arguments")
		}
		var sb strings.Builder
		for i, k := range n.Kids {
			if i > 0 {
				sb.WriteByte(' ')
			}
			v := r.eval(k)
			if IsErr(v) {
				return v
			}
			if c, ok := v.(*ctl); ok {
				v = c.v
			}
			// printing costs steps in proportion to what is printed (a loop printing a 20000-node value 100000 times
			// would otherwise take the reference minutes); the output itself is bounded the same way
			r.Steps += deepSize(v, 20000) / 2
			if r.tick() || r.Out.Len() > 64<<20 {
				r.Exhausted = true
				return &Err{Msg: ErrBudget}
			}
			sb.WriteString(printed(v))
		}
		if n.Op == "error" {
			return &Err{Msg: sb.String()}
		}
		if n.Op == "println" {
			sb.WriteByte('\n')
		}
		r.Out.WriteString(sb.String())
		return Nil{}
	}
	if len(n.Kids) != 1 {
		return errf("wrong number of arguments")
	}
	v := r.eval(n.Kids[0])
	if c, ok := v.(*ctl); ok {
		v = c.v
	}
	if n.Op == "catch" {
		if e, ok := v.(*Err); ok {
			if e.Msg == ErrBudget {
				return e
			}
			return &Map{P: []KV{{"err", true}, {"value", ErrText{}}}}
		}
		return &Map{P: []KV{{"err", false}, {"value", v}}}
	}
	if IsErr(v) {
		return v
	}
	switch n.Op {
	case "len":
		l := length(v)
		if l < 0 {
			return errf("len: not supported")
		}
		return int64(l)
	case "first":
		switch x := v.(type) {
		case Nil:
			return Nil{}
		case *Arr:
			if len(x.E) == 0 {
				return Nil{}
			}
			return x.E[0]
		case *Map:
			if len(x.P) == 0 {
				return Nil{}
			}
			return kvMap(x.P[0].K, x.P[0].V)
		case string:
			if x == "" {
				return Nil{}
			}
			return string([]rune(x)[:1])
		}
		return errf("first() not supported")
	case "rest":
		switch x := v.(type) {
		case Nil:
			return Nil{}
		case *Arr:
			if len(x.E) <= 1 {
				return Nil{}
			}
			return &Arr{append([]Val{}, x.E[1:]...)}
		case *Map:
			if len(x.P) <= 1 {
				return Nil{}
			}
			return &Map{P: append([]KV{}, x.P[1:]...), Big: x.Big && len(x.P)-1 > 4}
		case string:
			rs := []rune(x)
			if len(rs) <= 1 { // one character, however many bytes
				return Nil{}
			}
			return string(rs[1:])
		}
		return errf("rest() not supported")
	}
	return errf("unknown builtin")
}

func (r *Ref) forLoop(n *Node) Val {
	switch n.Op {
	case "var", "list":
		v := r.eval(n.Kids[0])
		switch x := v.(type) {
		case *Err:
			return x
		case int64:
			return r.forInt(n, 0, x, n.Name)
		case *Arr, *Map, string:
			return r.forList(n, v)
		}
		// Any other value: "v = x" is an ordinary condition expression (already evaluated once above),
		// evaluated and assigned again before every iteration.
		cond := &Node{K: KFor, Op: "cond", Kids: []*Node{Assign(n.Name, n.Kids[0])}, Body: n.Body}
		return r.forLoop(cond)
	case "range":
		a := r.eval(n.Kids[0])
		ai, ok := a.(int64)
		if !ok {
			return errf("for var = n:m n not an integer")
		}
		b := r.eval(n.Kids[1])
		bi, ok := b.(int64)
		if !ok {
			return errf("for var = n:m m not an integer")
		}
		return r.forInt(n, ai, bi, n.Name)
	}
	// condition / count form
	var last Val = Nil{}
	for {
		if r.tick() {
			return &Err{Msg: ErrBudget}
		}
		c := r.eval(n.Kids[0])
		switch x := c.(type) {
		case *Err:
			return x
		case bool:
			if !x {
				return last
			}
			res := r.block(n.Body)
			switch y := res.(type) {
			case *Err:
				return y
			case *ctl:
				switch y.kind {
				case "break":
					return last
				case "continue":
					continue
				default:
					return y
				}
			default:
				last = res
			}
		case Nil:
			return last
		case int64:
			return r.forInt(n, 0, x, "")
		default:
			return errf("for condition is not a boolean nor integer")
		}
	}
}

func (r *Ref) forInt(n *Node, start, end int64, name string) Val {
	var last Val = Nil{}
	if end-start < 0 {
		return errf("for loop with negative count")
	}
	for i := start; i < end; i++ {
		if r.tick() {
			return &Err{Msg: ErrBudget}
		}
		if name != "" {
			if res := r.assign(name, i, false); IsErr(res) {
				_ = res // the loop variable assignment result is ignored by the interpreter
			}
		}
		res := r.block(n.Body)
		switch y := res.(type) {
		case *Err:
			return y
		case *ctl:
			switch y.kind {
			case "break":
				return last
			case "continue":
				continue
			default:
				return y
			}
		default:
			last = res
		}
	}
	return last
}

func (r *Ref) forList(n *Node, list Val) Val {
	var last Val = Nil{}
	var items []Val
	switch x := list.(type) {
	case *Arr:
		items = x.E
	case *Map:
		for _, p := range x.P {
			items = append(items, kvMap(p.K, p.V))
		}
	case string:
		s := x
		for len(s) > 0 {
			// first() gives the first rune as a string, rest() the others; a string of byte length 1 ends the loop.
			rs := []rune(s)
			items = append(items, string(rs[:1]))
			if len(s) <= 1 {
				break
			}
			s = string(rs[1:])
		}
	}
	for _, it := range items {
		if r.tick() {
			return &Err{Msg: ErrBudget}
		}
		r.assign(n.Name, it, false)
		res := r.block(n.Body)
		switch y := res.(type) {
		case *Err:
			return y
		case *ctl:
			switch y.kind {
			case "break":
				return last
			case "continue":
				continue
			default:
				return y
			}
		default:
			last = res
		}
	}
	return last
}

var _ = utf8.RuneError

// FuncKey is a structural key of a function literal without its name (two literals with the same key
// are "the same function" for the self-recursion scoping rule).
func FuncKey(n *Node) string {
	var sb strings.Builder
	if n.Name != "" {
		sb.WriteString("named|")
	}
	sb.WriteString(strings.Join(n.Params, ","))
	if n.Variadic {
		sb.WriteString(",..")
	}
	sb.WriteString("|")
	rr := &Renderer{}
	for _, s := range n.Body {
		sb.WriteString(rr.Stmt(s, ""))
		sb.WriteString(";")
	}
	return sb.String()
}

// Lookup reads a variable of this scope (not the enclosing ones).
func (e *Env) Lookup(name string) (Val, bool) {
	v, ok := e.vars[name]
	return v, ok
}
