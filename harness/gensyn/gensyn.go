// Package gensyn generates arbitrary (mostly parseable) grol source text from the full grammar as a
// token list with known token boundaries, bracket depth and operator positions, plus mutators.
package gensyn

import (
	"fmt"
	"math/rand/v2"
	"strconv"
	"strings"
)

// Tok is one emitted token.
type Tok struct {
	Text    string
	Glue    bool // no whitespace allowed before this token (call paren, index bracket)
	Depth   int  // number of unclosed ( [ { after this token
	BinOp   bool // this token is a binary operator (an operand must follow)
	Splitty bool // string or block comment: a cut inside it leaves it open
	StmtEnd bool // a top-level statement ends after this token
	NL      bool // a newline must follow (line comment)
}

// Gen is a generator instance.
type Gen struct {
	R     *rand.Rand
	Toks  []Tok
	depth int
	// Profile switches
	NoMacros   bool
	NoComments bool
	Idents     []string
}

var defaultIdents = []string{"a", "b", "c", "x", "y", "foo", "bar_1", "N", "MAX", "i", "n", "m", "s", "f", "g", "ab", "e", "E1"}

// New makes a generator.
func New(r *rand.Rand) *Gen { return &Gen{R: r, Idents: defaultIdents} }

func (g *Gen) emit(text string) *Tok {
	g.Toks = append(g.Toks, Tok{Text: text, Depth: g.depth})
	return &g.Toks[len(g.Toks)-1]
}

func (g *Gen) open(text string, glue bool) {
	g.depth++
	t := g.emit(text)
	t.Glue = glue
}

func (g *Gen) close(text string) {
	g.depth--
	g.emit(text)
}

func (g *Gen) binop(text string) { g.emit(text).BinOp = true }

func (g *Gen) pick(l []string) string { return l[g.R.IntN(len(l))] }

// InfixOps are all binary operators of the language (including assignment forms and range).
var InfixOps = []string{"+", "-", "*", "/", "%", "==", "!=", "<", ">", "<=", ">=", "&&", "||", "&", "|", "^", "<<", ">>", ":", "=", ":="}

// PrefixOps are the prefix operators.
var PrefixOps = []string{"-", "!", "+", "~", "^", "++", "--"}

// Builtins with their usual arity.
var Builtins = []string{"len", "first", "rest", "print", "println", "error", "catch", "quote", "unquote", "del", "log"}

func (g *Gen) ident() string { return g.pick(g.Idents) }

func (g *Gen) intLit() string {
	switch g.R.IntN(12) {
	case 0:
		return "0x" + strconv.FormatInt(int64(g.R.IntN(1<<16)), 16)
	case 1:
		return "0b" + strconv.FormatInt(int64(g.R.IntN(256)), 2)
	case 2:
		return "1_000"
	case 3:
		return "9223372036854775807"
	case 4:
		return "9223372036854775808" // does not fit: becomes a float
	case 5:
		return "017"
	case 6:
		return "0"
	default:
		return strconv.Itoa(g.R.IntN(100))
	}
}

func (g *Gen) floatLit() string {
	return g.pick([]string{"1.5", ".5", "1.", "1e5", "2.5e-3", "1E+2", "0.0", "3.14159", "1e21", "1_0.5", "100.25", "5e-324", "1.7976931348623157e308"})
}

// StringLit returns a random string literal (escaped or raw).
func (g *Gen) StringLit() string {
	n := g.R.IntN(6)
	if g.R.IntN(6) == 0 { // raw
		var sb strings.Builder
		sb.WriteByte('`')
		for i := 0; i < n; i++ {
			c := byte(g.R.IntN(256))
			if c == '`' || c == 0 {
				c = 'q'
			}
			sb.WriteByte(c)
		}
		sb.WriteByte('`')
		return sb.String()
	}
	var sb strings.Builder
	sb.WriteByte('"')
	for i := 0; i < n; i++ {
		switch g.R.IntN(14) {
		case 0:
			sb.WriteString(`\n`)
		case 1:
			sb.WriteString(`\t`)
		case 2:
			sb.WriteString(`\"`)
		case 3:
			sb.WriteString(`\\`)
		case 4:
			fmt.Fprintf(&sb, `\x%02x`, g.R.IntN(256))
		case 5:
			fmt.Fprintf(&sb, `\u%04x`, g.R.IntN(0x3000))
		case 6:
			sb.WriteString(g.pick([]string{`\a`, `\b`, `\f`, `\v`, `\r`, `\'`, `\q`}))
		case 7:
			sb.WriteString(g.pick([]string{"é", "世", "\xff", "\x7f", "\x01", " ", "//", "/*", "{", "'"}))
		case 8:
			fmt.Fprintf(&sb, `\U%08x`, g.R.IntN(0x10ffff))
		default:
			sb.WriteByte("abcxyz 019_+-"[g.R.IntN(13)])
		}
	}
	sb.WriteByte('"')
	return sb.String()
}

func (g *Gen) atom() {
	switch g.R.IntN(10) {
	case 0, 1, 2:
		g.emit(g.ident())
	case 3, 4:
		g.emit(g.intLit())
	case 5:
		g.emit(g.floatLit())
	case 6:
		g.emit(g.StringLit()).Splitty = true
	case 7:
		g.emit(g.pick([]string{"true", "false", "nil"}))
	case 8:
		g.emit(g.ident())
	default:
		g.emit(g.intLit())
	}
}

func (g *Gen) exprList(d int, maxN int) {
	n := g.R.IntN(maxN + 1)
	for i := 0; i < n; i++ {
		if i > 0 {
			g.emit(",")
		}
		g.Expr(d)
	}
}

func (g *Gen) params() []string {
	n := g.R.IntN(4)
	var ps []string
	for i := 0; i < n; i++ {
		ps = append(ps, g.ident())
	}
	if g.R.IntN(8) == 0 {
		ps = append(ps, "..")
	}
	return ps
}

func (g *Gen) block(d int) {
	g.open("{", false)
	n := g.R.IntN(3)
	if d <= 0 {
		n = g.R.IntN(2)
	}
	for i := 0; i < n; i++ {
		g.Stmt(d-1, false)
		if i < n-1 || g.R.IntN(4) == 0 {
			g.sep()
		}
	}
	g.close("}")
}

// sep emits a statement separator inside blocks / programs.
func (g *Gen) sep() {
	if len(g.Toks) > 0 && g.Toks[len(g.Toks)-1].NL {
		return // a line comment already forces a newline
	}
	switch g.R.IntN(5) {
	case 0:
		g.emit("\n") // newline as separator token (rendered as a newline, no text)
	default:
		g.emit(";")
	}
}

// Expr emits a random expression of depth budget d.
func (g *Gen) Expr(d int) { //nolint:gocyclo,funlen // grammar
	if d <= 0 {
		g.atom()
		return
	}
	switch g.R.IntN(30) {
	case 0, 1, 2:
		g.atom()
	case 3, 4, 5, 6, 7:
		g.Expr(d - 1)
		g.binop(g.pick(InfixOps[:19])) // no assignment ops here
		g.Expr(d - 1)
	case 8, 9:
		g.emit(g.pick(PrefixOps))
		g.Expr(d - 1)
	case 10, 11:
		g.open("(", false)
		g.Expr(d - 1)
		g.close(")")
	case 12, 13:
		g.callee(d - 1)
		g.open("(", true)
		g.exprList(d-1, 3)
		g.close(")")
	case 14:
		g.callee(d - 1)
		g.open("[", true)
		g.Expr(d - 1)
		if g.R.IntN(3) == 0 {
			g.binop(":")
			if g.R.IntN(3) > 0 {
				g.Expr(d - 1)
			}
		}
		g.close("]")
	case 15:
		g.callee(d - 1)
		g.emit(".")
		g.emit(g.ident())
	case 16:
		g.open("[", false)
		g.exprList(d-1, 4)
		g.close("]")
	case 17:
		g.open("{", false)
		n := g.R.IntN(4)
		for i := 0; i < n; i++ {
			if i > 0 {
				g.emit(",")
			}
			g.Expr(d - 2)
			g.binop(":")
			g.Expr(d - 1)
		}
		g.close("}")
	case 18:
		b := g.pick(Builtins)
		g.emit(b)
		g.open("(", g.R.IntN(2) == 0)
		switch b {
		case "print", "println", "log", "error":
			g.exprList(d-1, 3)
		default:
			g.Expr(d - 1)
		}
		g.close(")")
	case 19: // single param lambda
		g.emit(g.ident())
		g.emit("=>")
		if g.R.IntN(2) == 0 {
			g.block(d - 1)
		} else {
			g.Expr(d - 1)
		}
	case 20: // multi param lambda
		g.open("(", false)
		ps := g.params()
		for i, p := range ps {
			if i > 0 {
				g.emit(",")
			}
			g.emit(p)
		}
		g.close(")")
		g.emit("=>")
		if g.R.IntN(2) == 0 {
			g.block(d - 1)
		} else {
			g.Expr(d - 1)
		}
	case 21: // func literal
		g.emit("func")
		if g.R.IntN(2) == 0 {
			g.emit(g.ident())
		}
		g.open("(", g.R.IntN(2) == 0)
		ps := g.params()
		for i, p := range ps {
			if i > 0 {
				g.emit(",")
			}
			g.emit(p)
		}
		g.close(")")
		g.block(d - 1)
	case 22, 23: // if / else
		g.emit("if")
		g.Expr(d - 1)
		g.block(d - 1)
		for g.R.IntN(3) == 0 {
			g.emit("else")
			g.emit("if")
			g.Expr(d - 1)
			g.block(d - 1)
		}
		if g.R.IntN(2) == 0 {
			g.emit("else")
			g.block(d - 1)
		}
	case 24: // for
		g.emit("for")
		switch g.R.IntN(4) {
		case 0:
			g.Expr(d - 1)
		case 1:
			g.emit(g.ident())
			g.binop("=")
			g.Expr(d - 1)
		case 2:
			g.emit(g.ident())
			g.binop(g.pick([]string{"=", ":="}))
			g.Expr(d - 2)
			g.binop(":")
			g.Expr(d - 2)
		default:
			g.emit(g.intLit())
		}
		g.block(d - 1)
	case 25:
		g.emit(g.ident())
		g.emit(g.pick([]string{"++", "--"}))
	case 26: // assignment
		switch g.R.IntN(4) {
		case 0:
			g.emit(g.ident())
			g.open("[", true)
			g.Expr(d - 1)
			g.close("]")
		case 1:
			g.emit(g.ident())
			g.emit(".")
			g.emit(g.ident())
		default:
			g.emit(g.ident())
		}
		g.binop(g.pick([]string{"=", ":="}))
		g.Expr(d - 1)
	case 27:
		if g.NoMacros {
			g.atom()
			return
		}
		g.emit("macro")
		g.open("(", g.R.IntN(2) == 0)
		ps := g.params()
		for i, p := range ps {
			if i > 0 {
				g.emit(",")
			}
			g.emit(p)
		}
		g.close(")")
		g.block(d - 1)
	case 28:
		g.emit(g.pick([]string{"break", "continue"}))
	default:
		g.atom()
	}
}

func (g *Gen) callee(d int) {
	switch g.R.IntN(6) {
	case 0:
		g.open("(", false)
		g.Expr(d)
		g.close(")")
	case 1:
		if d > 0 {
			g.callee(d - 1)
			g.open("(", true)
			g.exprList(d-1, 2)
			g.close(")")
			return
		}
		g.emit(g.ident())
	case 2:
		if d > 0 {
			g.callee(d - 1)
			g.open("[", true)
			g.Expr(d - 1)
			g.close("]")
			return
		}
		g.emit(g.ident())
	default:
		g.emit(g.ident())
	}
}

// Comment emits a comment token.
func (g *Gen) Comment() {
	if g.R.IntN(2) == 0 {
		t := g.emit("// " + g.pick([]string{"note", "x = 1", "", "a /* b", "trailing  "}))
		t.NL = true
		return
	}
	g.emit("/* " + g.pick([]string{"block", "multi\nline", "", "x*y", "//"}) + " */").Splitty = true
}

// Stmt emits one statement.
func (g *Gen) Stmt(d int, top bool) {
	switch g.R.IntN(12) {
	case 0:
		g.emit("return")
		if g.R.IntN(3) > 0 {
			g.Expr(d)
		}
	case 1:
		if !g.NoComments {
			g.Comment()
			return
		}
		g.Expr(d)
	default:
		g.Expr(d)
	}
	if top {
		g.Toks[len(g.Toks)-1].StmtEnd = true
	}
}

// Program emits n top-level statements.
func (g *Gen) Program(n, d int) {
	for i := 0; i < n; i++ {
		g.Stmt(d, true)
		if i < n-1 || g.R.IntN(3) == 0 {
			g.sep()
		}
	}
}

// Render joins tokens. Offsets[i] is the byte offset just after token i.
func Render(toks []Tok, r *rand.Rand) (string, []int) {
	var sb strings.Builder
	offs := make([]int, len(toks))
	for i, t := range toks {
		if i > 0 && !t.Glue {
			prev := toks[i-1]
			switch {
			case prev.NL:
				sb.WriteByte('\n')
			case prev.Text == "\n" || t.Text == "\n":
				// the newline token itself is the whitespace
			case r != nil && r.IntN(12) == 0:
				sb.WriteString([]string{"  ", "\t", " \t ", "\n"}[r.IntN(4)])
			default:
				sb.WriteByte(' ')
			}
		}
		sb.WriteString(t.Text)
		offs[i] = sb.Len()
	}
	if len(toks) > 0 && toks[len(toks)-1].NL {
		sb.WriteByte('\n')
	}
	return sb.String(), offs
}

// MutateBytes applies 1..3 random byte edits.
func MutateBytes(r *rand.Rand, src string) string {
	b := []byte(src)
	alpha := []byte("(){}[],;:=+-*/%<>!&|^~.\"`\\ \n\r\t01aex_")
	for k := 1 + r.IntN(3); k > 0 && len(b) > 0; k-- {
		pos := r.IntN(len(b))
		switch r.IntN(3) {
		case 0:
			b[pos] = alpha[r.IntN(len(alpha))]
		case 1:
			b = append(b[:pos], b[pos+1:]...)
		default:
			b = append(b[:pos], append([]byte{alpha[r.IntN(len(alpha))]}, b[pos:]...)...)
		}
	}
	return string(b)
}

// MutateTokens deletes, duplicates or swaps tokens.
func MutateTokens(r *rand.Rand, toks []Tok) []Tok {
	out := append([]Tok{}, toks...)
	if len(out) < 2 {
		return out
	}
	for k := 1 + r.IntN(2); k > 0 && len(out) > 1; k-- {
		pos := r.IntN(len(out))
		switch r.IntN(3) {
		case 0:
			out = append(out[:pos], out[pos+1:]...)
		case 1:
			out = append(out[:pos+1], out[pos:]...)
		default:
			q := r.IntN(len(out))
			out[pos], out[q] = out[q], out[pos]
		}
	}
	return out
}
