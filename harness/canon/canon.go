// Package canon dumps a grol ast.Node into a canonical structural string by a type switch
// (it never calls PrettyPrint/DebugString, which are code under test), and walks trees for
// missing children.
package canon

import (
	"fmt"
	"math"
	"strconv"
	"strings"

	"grol.io/grol/ast"
	"grol.io/grol/token"
)

// Opts selects normalisations.
type Opts struct {
	DropComments  bool // compact mode omits comments by design
	IgnoreLambda  bool // func(a){} and a=>{} are the same function value (Function.Inspect normalises)
	LiteralText   bool // include the literal spelling of numbers (for fixpoint checks), else the value only
	IgnoreDefines bool
}

// Dump returns the canonical form.
func Dump(n ast.Node, o Opts) string {
	var sb strings.Builder
	dump(&sb, n, o)
	return sb.String()
}

func isNilNode(n ast.Node) bool {
	if n == nil {
		return true
	}
	switch v := n.(type) {
	case *ast.Statements:
		return v == nil
	case *ast.Identifier:
		return v == nil
	case *ast.InfixExpression:
		return v == nil
	case *ast.IfExpression:
		return v == nil
	case *ast.ForExpression:
		return v == nil
	case *ast.FunctionLiteral:
		return v == nil
	case *ast.CallExpression:
		return v == nil
	case *ast.PrefixExpression:
		return v == nil
	case *ast.IndexExpression:
		return v == nil
	}
	return false
}

func tokStr(t *token.Token) string {
	if t == nil {
		return "<notoken>"
	}
	return t.Type().String()
}

func list(sb *strings.Builder, l []ast.Node, o Opts) {
	first := true
	for _, e := range l {
		if o.DropComments {
			if _, ok := e.(*ast.Comment); ok {
				continue
			}
		}
		if !first {
			sb.WriteByte(' ')
		}
		first = false
		dump(sb, e, o)
	}
}

func dump(sb *strings.Builder, n ast.Node, o Opts) { //nolint:gocyclo,funlen // type switch
	if isNilNode(n) {
		sb.WriteString("<nil>")
		return
	}
	switch v := n.(type) {
	case *ast.Statements:
		sb.WriteString("S[")
		list(sb, v.Statements, o)
		sb.WriteString("]")
	case *ast.Identifier:
		sb.WriteString("id:" + v.Literal())
	case ast.Identifier:
		sb.WriteString("id:" + v.Literal())
	case *ast.IntegerLiteral:
		intLit(sb, v.Val, v.Token, o)
	case ast.IntegerLiteral:
		intLit(sb, v.Val, v.Token, o)
	case *ast.FloatLiteral:
		fmt.Fprintf(sb, "float:%016x", math.Float64bits(v.Val))
		if o.LiteralText {
			sb.WriteString("/" + v.Literal())
		}
	case *ast.StringLiteral:
		sb.WriteString("str:" + strconv.QuoteToASCII(v.Literal()))
	case *ast.Boolean:
		fmt.Fprintf(sb, "bool:%v/%s", v.Val, tokStr(v.Token))
	case ast.Boolean:
		fmt.Fprintf(sb, "bool:%v/%s", v.Val, tokStr(v.Token))
	case *ast.Comment:
		sb.WriteString("cmt:" + strconv.QuoteToASCII(v.Literal()))
	case *ast.PrefixExpression:
		sb.WriteString("pre(" + tokStr(v.Token) + " ")
		dump(sb, v.Right, o)
		sb.WriteString(")")
	case *ast.PostfixExpression:
		p := "<nil>"
		if v.Prev != nil {
			p = v.Prev.Literal()
		}
		sb.WriteString("post(" + tokStr(v.Token) + " " + p + ")")
	case *ast.InfixExpression:
		t := tokStr(v.Token)
		if o.IgnoreDefines && v.Token != nil && v.Token.Type() == token.DEFINE {
			t = token.ASSIGN.String()
		}
		sb.WriteString("in(" + t + " ")
		dump(sb, v.Left, o)
		sb.WriteByte(' ')
		dump(sb, v.Right, o)
		sb.WriteString(")")
	case *ast.IfExpression:
		sb.WriteString("if(")
		dump(sb, v.Condition, o)
		sb.WriteByte(' ')
		dump(sb, v.Consequence, o)
		sb.WriteByte(' ')
		dump(sb, v.Alternative, o)
		sb.WriteString(")")
	case *ast.ForExpression:
		sb.WriteString("for(")
		dump(sb, v.Condition, o)
		sb.WriteByte(' ')
		dump(sb, v.Body, o)
		sb.WriteString(")")
	case *ast.ReturnStatement:
		sb.WriteString("ret(")
		dump(sb, v.ReturnValue, o)
		sb.WriteString(")")
	case *ast.ControlExpression:
		sb.WriteString("ctl:" + tokStr(v.Token))
	case *ast.Builtin:
		sb.WriteString("bi:" + tokStr(v.Token) + "(")
		list(sb, v.Parameters, o)
		sb.WriteString(")")
	case *ast.FunctionLiteral:
		sb.WriteString("fn(")
		if v.Name != nil {
			sb.WriteString("name:" + v.Name.Literal())
		} else {
			sb.WriteString("anon")
		}
		if !o.IgnoreLambda {
			fmt.Fprintf(sb, " lambda:%v", v.IsLambda)
		}
		fmt.Fprintf(sb, " variadic:%v params(", v.Variadic)
		list(sb, v.Parameters, o)
		sb.WriteString(") ")
		dump(sb, v.Body, o)
		sb.WriteString(")")
	case *ast.CallExpression:
		sb.WriteString("call(")
		dump(sb, v.Function, o)
		sb.WriteString(" args(")
		list(sb, v.Arguments, o)
		sb.WriteString("))")
	case *ast.ArrayLiteral:
		sb.WriteString("arr(")
		list(sb, v.Elements, o)
		sb.WriteString(")")
	case *ast.IndexExpression:
		sb.WriteString("idx(" + tokStr(v.Token) + " ")
		dump(sb, v.Left, o)
		sb.WriteByte(' ')
		dump(sb, v.Index, o)
		sb.WriteString(")")
	case *ast.MapLiteral:
		sb.WriteString("map(")
		if len(v.Order) != len(v.Pairs) {
			fmt.Fprintf(sb, "!order=%d,pairs=%d ", len(v.Order), len(v.Pairs))
		}
		for i, k := range v.Order {
			if i > 0 {
				sb.WriteByte(' ')
			}
			dump(sb, k, o)
			sb.WriteString("=>")
			val, ok := v.Pairs[k]
			if !ok {
				sb.WriteString("<missing>")
			} else {
				dump(sb, val, o)
			}
		}
		sb.WriteString(")")
	case *ast.MacroLiteral:
		sb.WriteString("macro(params(")
		list(sb, v.Parameters, o)
		sb.WriteString(") ")
		dump(sb, v.Body, o)
		sb.WriteString(")")
	default:
		fmt.Fprintf(sb, "?%T", n)
	}
}

func intLit(sb *strings.Builder, val int64, t *token.Token, o Opts) {
	fmt.Fprintf(sb, "int:%d", val)
	if o.LiteralText && t != nil {
		sb.WriteString("/" + t.Literal())
	}
}

// Missing returns the path of the first child that is nil where the node type requires one
// ("" if none). Only InfixExpression.Right of `:` directly under an index (open range a[n:]), ReturnStatement.ReturnValue,
// IfExpression.Alternative and FunctionLiteral.Name may be nil.
func Missing(n ast.Node) string {
	return missing(n, "root")
}

func missingList(l []ast.Node, path string) string {
	for i, e := range l {
		if isNilNode(e) {
			return fmt.Sprintf("%s[%d]", path, i)
		}
		if m := missing(e, fmt.Sprintf("%s[%d]", path, i)); m != "" {
			return m
		}
	}
	return ""
}

func req(n ast.Node, path string) string {
	if isNilNode(n) {
		return path
	}
	return missing(n, path)
}

func missing(n ast.Node, path string) string { //nolint:gocyclo,funlen // type switch
	if isNilNode(n) {
		return path
	}
	if n.Value() == nil {
		if _, isStmts := n.(*ast.Statements); !isStmts {
			return path + ".token"
		}
	}
	switch v := n.(type) {
	case *ast.Statements:
		return missingList(v.Statements, path+".stmts")
	case *ast.PrefixExpression:
		return req(v.Right, path+".prefix.right")
	case *ast.PostfixExpression:
		if v.Prev == nil {
			return path + ".postfix.prev"
		}
	case *ast.InfixExpression:
		if m := req(v.Left, path+".infix.left"); m != "" {
			return m
		}
		if isNilNode(v.Right) {
			// the open range a[n:] is the only infix without a right operand, and only as the index itself
			if v.Token != nil && v.Token.Type() == token.COLON && strings.HasSuffix(path, ".index.index") {
				return ""
			}
			return path + ".infix.right"
		}
		return missing(v.Right, path+".infix.right")
	case *ast.IfExpression:
		if m := req(v.Condition, path+".if.cond"); m != "" {
			return m
		}
		if v.Consequence == nil {
			return path + ".if.then"
		}
		if m := missing(v.Consequence, path+".if.then"); m != "" {
			return m
		}
		if v.Alternative != nil {
			return missing(v.Alternative, path+".if.else")
		}
	case *ast.ForExpression:
		if m := req(v.Condition, path+".for.cond"); m != "" {
			return m
		}
		if v.Body == nil {
			return path + ".for.body"
		}
		return missing(v.Body, path+".for.body")
	case *ast.ReturnStatement:
		if !isNilNode(v.ReturnValue) {
			return missing(v.ReturnValue, path+".return")
		}
	case *ast.Builtin:
		if v.Parameters == nil {
			return path + ".builtin.params"
		}
		return missingList(v.Parameters, path+".builtin.params")
	case *ast.FunctionLiteral:
		if m := missingList(v.Parameters, path+".func.params"); m != "" {
			return m
		}
		if v.Body == nil {
			return path + ".func.body"
		}
		return missing(v.Body, path+".func.body")
	case *ast.CallExpression:
		if m := req(v.Function, path+".call.fn"); m != "" {
			return m
		}
		if v.Arguments == nil {
			return path + ".call.args"
		}
		return missingList(v.Arguments, path+".call.args")
	case *ast.ArrayLiteral:
		if v.Elements == nil {
			return path + ".array.elements"
		}
		return missingList(v.Elements, path+".array.elements")
	case *ast.IndexExpression:
		if m := req(v.Left, path+".index.left"); m != "" {
			return m
		}
		return req(v.Index, path+".index.index")
	case *ast.MapLiteral:
		for i, k := range v.Order {
			if m := req(k, fmt.Sprintf("%s.map.key[%d]", path, i)); m != "" {
				return m
			}
			val, ok := v.Pairs[k]
			if !ok {
				return fmt.Sprintf("%s.map.value[%d]", path, i)
			}
			if m := req(val, fmt.Sprintf("%s.map.value[%d]", path, i)); m != "" {
				return m
			}
		}
	case *ast.MacroLiteral:
		if m := missingList(v.Parameters, path+".macro.params"); m != "" {
			return m
		}
		if v.Body == nil {
			return path + ".macro.body"
		}
		return missing(v.Body, path+".macro.body")
	}
	return ""
}
