#!/bin/bash
# tools/runall.sh [quick|thorough] [seed]  — runs every claimed check sequentially and prints one line per check.
TIER=${1:-quick}; SEED=${2:-1}
cd "$(dirname "$0")/.." || exit 2
mkdir -p .build
for p in $(python3 -c "import json;print(' '.join(c['property_id'] for c in json.load(open('MANIFEST.json'))['checks']))"); do
  s=$(date +%s)
  VERIF_SEED=$SEED ./check $p $TIER > .build/runall-$p.log 2>&1; rc=$?
  e=$(( $(date +%s) - s ))
  echo "$p $TIER seed=$SEED exit=$rc ${e}s known=$(grep -c '^KNOWN-FINDING' .build/runall-$p.log) stale=$(grep -c '^STALE' .build/runall-$p.log) viol=$(grep -c '^VIOLATION' .build/runall-$p.log) incon=$(grep -c '^INCONCLUSIVE' .build/runall-$p.log)"
done
