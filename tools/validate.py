#!/usr/bin/env python3
"""Validate MANIFEST.json and the evidence files against the schemas (python3-vt has jsonschema)."""
import json, sys, glob, jsonschema
m = json.load(open('/verif/MANIFEST.json'))
jsonschema.validate(m, json.load(open('/root/.vp/MANIFEST.schema.json')))
ids = [json.loads(l)['id'] for l in open('/verif/properties.jsonl')]
claimed = [c['property_id'] for c in m['checks']]
na = [c['property_id'] for c in m.get('not_applicable', [])]
assert sorted(claimed + na) == sorted(ids), (sorted(set(ids) - set(claimed) - set(na)), set(claimed) & set(na))
es = json.load(open('/root/.vp/EVIDENCE.schema.json'))
for f in sorted(glob.glob('/verif/evidence/*.json')):
    jsonschema.validate(json.load(open(f)), es)
    print('ok', f)
print('manifest ok: claimed', len(claimed), 'not_applicable', len(na))
