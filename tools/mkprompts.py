#!/usr/bin/env python3
"""Writes /tmp/agent-prompt-<Cxx>.txt: the task given to a fresh sub-agent that seeds a defect for one property.
The agent gets the text of the property and a private worktree /tmp/wt-<Cxx> only (nothing from /verif)."""
import json
props={json.loads(l)['id']:json.loads(l) for l in open('/verif/properties.jsonl')}
tmpl=open('/verif/tools/seed_prompt.txt').read()
for i,p in props.items():
    t=tmpl.replace('ID',i).replace('STATEMENT',p['statement']).replace('QUANT',p['quantifier']['text'])
    if i=='C18':
        t+="\nNote for this property: fault and crash injection hooks exist in the tree behind the build tag `verif` (object/verif_on.go: environment variables VERIF_CRASH_AT=<point>:<k> kills the process with SIGKILL at the k-th passage of a named point, VERIF_FAIL_AT=<point>:<k> makes the k-th write fail; points are named in repl/repl.go AutoSave and object/state.go SaveGlobals); your demonstration may use them by running with `-tags verif`.\n"
    open('/tmp/agent-prompt-%s.txt'%i,'w').write(t)
print(len(props))
