#!/usr/bin/env python3
"""Regenerates /verif/MANIFEST.json from the table below (run with python3; validate with tools/validate.py)."""
import json, subprocess
ids = [json.loads(l)['id'] for l in open('/verif/properties.jsonl')]
hooks = subprocess.run("git -C /repo log --format=%h --grep='^verif hook'", shell=True, capture_output=True, text=True).stdout.split()
CHECKS = {}
def chk(pid, level, tech, text, note):
    CHECKS[pid] = {"property_id": pid, "quick_cmd": "./check %s quick" % pid, "thorough_cmd": "./check %s thorough" % pid,
        "evidence_file": "/verif/evidence/%s.json" % pid, "replay_cmd_template": "./check replay {path}", "engine": "verifd",
        "level_claimed": {"category": level, "text": text, "design_ref": "DESIGN.md section 3, %s" % pid},
        "level_note": note, "technique": tech}
exec(open('/verif/tools/manifest_table.py').read())
m = {"version": 1, "setup_cmd": "./check build",
 "hooks": {"guard": "verif (Go build tag)", "enable": "go build -tags verif of the harness module /verif/harness (replace grol.io/grol => /repo), done by ./check before every run",
   "baseline_off_cmd": "cd /repo && go test -mod=mod -json -vet=off -count=1 -timeout 25m ./...",
   "source_commits": hooks, "add_only": True},
 "engines": [{"name": "verifd", "path": "/verif/harness", "serves_properties": sorted(CHECKS),
   "kind_free_text": "Go driver + worker child processes (per-case journal) running runtime monitors against the real grol packages built from /repo's working tree with -tags verif"}],
 "checks": [CHECKS[k] for k in sorted(CHECKS)],
 "notes": "Every check is a runtime monitor observing executions of the real code (reference-model, differential, round-trip, process-level and fault-enumeration monitors); see DESIGN.md. known_findings.txt lists open and fixed findings.",
 "not_applicable": [{"property_id": i, "reason": NA.get(i, "monitor not built yet (work in progress, see DESIGN.md section 3)")} for i in ids if i not in CHECKS]}
json.dump(m, open('/verif/MANIFEST.json', 'w'), indent=1)
print("claimed", sorted(CHECKS))
