#!/usr/bin/env python3
"""Regenerates the machine-made tables of DESIGN.md (between <!-- BEGIN:x --> / <!-- END:x --> markers)
from known_findings.txt, seeded/*/meta.json and the fix commits of /repo."""
import json, re, subprocess, glob, os, sys
V = '/verif'
def sh(*a): return subprocess.run(a, capture_output=True, text=True).stdout
def esc(s): return s.replace('|', '\\|').replace('\n', ' ')
fixed, opened = [], []
for line in open(V + '/known_findings.txt'):
    line = line.rstrip('\n')
    if line.startswith('fixed:'):
        m = re.match(r'fixed: property=(\S+) (\S+) witness=(.*?) :: (.*)$', line)
        if m: fixed.append(m.groups())
    elif line.startswith('open:'):
        m = re.match(r'open: property=(\S+) id=(\S+) sig=(\S+) witness=(.*?) :: (.*)$', line)
        if m: opened.append(m.groups())
subjects = {}
for l in sh('git', '-C', '/repo', 'log', '--format=%h\t%s', '--grep=^fix:', '--reverse').splitlines():
    h, s = l.split('\t', 1); subjects[h] = s
def short_w(w):
    w = w.strip()
    return w if len(w) <= 150 else w[:147] + '...'
out = {}
rows = ['| commit | property (regression witnesses in known_findings.txt) | what the commit repairs |', '|---|---|---|']
byc = {}
for p, c, w, what in fixed: byc.setdefault(c, []).append(p)
for h, s in subjects.items():
    props = sorted(set(byc.get(h, [])))
    rows.append('| %s | %s | %s |' % (h, ', '.join(props) or '(no witness line)', esc(s[5:].strip())))
missing = [c for c in byc if c not in subjects]
out['fixes'] = '\n'.join(rows) + ('\n\nfixed: lines naming unknown commits: ' + ', '.join(missing) if missing else '') + '\n\n%d fix commits, %d regression witnesses.' % (len(subjects), len(fixed))
rows = ['| id | property | signature glob | stored witness | what fails / why it is not repaired |', '|---|---|---|---|---|']
for p, i, sig, w, what in opened:
    rows.append('| %s | %s | `%s` | `%s` | %s |' % (i, p, esc(sig), esc(short_w(w)), esc(what)))
out['open'] = '\n'.join(rows)
rows = ['| seeded change | what was changed | what it needs to show | caught by |', '|---|---|---|---|']
def key(d):
    m = re.match(r'.*/(C\d+)-(\d+)$', d); return (m.group(1), int(m.group(2)))
for d in sorted(glob.glob(V + '/seeded/C*-*'), key=key):
    try: m = json.load(open(d + '/meta.json'))
    except Exception: continue
    cb = m.get('caught_by') or []
    status = ', '.join(cb) + ' quick' if cb else ('not caught — ' + m.get('status', 'see text'))
    if m.get('obsolete'): status = 'obsolete: ' + m['obsolete']
    rows.append('| %s | %s | %s | %s |' % (os.path.basename(d), esc(m.get('summary', '')[:300]), esc(m.get('needs', '')[:300]), status))
out['seeded'] = '\n'.join(rows)
p = V + '/DESIGN.md'
s = open(p).read()
for k, v in out.items():
    b, e = '<!-- BEGIN:%s -->' % k, '<!-- END:%s -->' % k
    if b in s and e in s:
        i, j = s.index(b) + len(b), s.index(e)
        s = s[:i] + '\n' + v + '\n' + s[j:]
    else:
        print('marker missing:', k, file=sys.stderr)
open(p, 'w').write(s)
print('fixes', len(subjects), 'witnesses', len(fixed), 'open', len(opened))
