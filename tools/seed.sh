#!/bin/bash
# tools/seed.sh <Cxx> <k> <pkgdir-for-demo | -> [check-id...]
# (DEMOTAGS=verif runs a Go demo with that build tag.)
# (DESTK=<n> files the change as /verif/seeded/<Cxx>-<n> instead of <Cxx>-<k>.)
# Validates seeded change k of /tmp/out-<Cxx>/ in the scratch worktree /tmp/wt-<Cxx> (suite passes with the
# patch, demo fails with it and passes without it), then applies it to /repo, runs the given checks
# (default: the property's own quick check), reverts /repo, and files the change under /verif/seeded/<Cxx>-<k>/.
set -u
ID=$1; K=$2; PKG=$3; shift 3
CHECKS=${*:-$ID}
OUT=/tmp/out-$ID; WT=/tmp/wt-$ID
export GOFLAGS=-mod=mod GOPROXY=off GOTOOLCHAIN=local
GO=/root/go/pkg/mod/golang.org/toolchain@v0.0.1-go1.23.8.linux-amd64/bin/go
PATCH=$OUT/patch$K.diff
DEMO=$(ls $OUT/demo$K* 2>/dev/null | head -1)
[ -f "$PATCH" ] || { echo "no $PATCH"; exit 2; }
git -C $WT checkout -q -- . ; git -C $WT clean -fdq
git -C $WT checkout -q --detach $(git -C /repo rev-parse HEAD)   # validate against the current tree
rundemo() { # runs the demo in $WT, returns its status
  case "$DEMO" in
    *_test.go) cp "$DEMO" $WT/$PKG/zz_seeded_demo_test.go; (cd $WT && $GO test ${DEMOTAGS:+-tags $DEMOTAGS} -vet=off -count=1 -run 'TestSeeded' ./$PKG/ >/tmp/seed-demo.log 2>&1); r=$?; rm -f $WT/$PKG/zz_seeded_demo_test.go; return $r;;
    *.sh) (cd $WT && bash "$DEMO" >/tmp/seed-demo.log 2>&1); return $?;;
    *) return 99;;
  esac
}
echo "== without patch: demo must pass"; rundemo; R0=$?; echo "demo exit $R0"
git -C $WT apply "$PATCH" || { echo "patch does not apply to worktree"; exit 2; }
echo "== with patch: suite must pass, demo must fail"
(cd $WT && $GO build ./... && $GO test -vet=off -count=1 ./... 2>&1 | grep -v "^ok\|no test files"); 
SUITE=$( (cd $WT && $GO test -vet=off -count=1 ./... >/dev/null 2>&1) && echo pass || echo FAIL)
echo "suite: $SUITE"
rundemo; R1=$?; echo "demo exit $R1"; tail -5 /tmp/seed-demo.log
git -C $WT checkout -q -- . ; git -C $WT clean -fdq
[ "$R0" = 0 ] && [ "$R1" != 0 ] && [ "$SUITE" = pass ] || { echo "SEED-INVALID $ID-$K (R0=$R0 R1=$R1 suite=$SUITE)"; exit 3; }
echo "== applying to /repo and running checks: $CHECKS"
git -C /repo diff --quiet || { echo "/repo dirty, abort"; exit 2; }
git -C /repo apply "$PATCH" || { echo "patch does not apply to /repo HEAD"; exit 4; }
CAUGHT=""
for c in $CHECKS; do
  (cd /verif && ./check $c quick > /tmp/seed-check-$c.log 2>&1); rc=$?
  echo "check $c exit $rc: $(grep -c '^VIOLATION' /tmp/seed-check-$c.log) violation lines"; grep -A3 '^VIOLATION' /tmp/seed-check-$c.log | head -8 | cut -c1-300
  [ $rc = 1 ] && CAUGHT="$CAUGHT $c"
done
git -C /repo checkout -q -- . 
DK=${DESTK:-$K}; D=/verif/seeded/$ID-$DK; mkdir -p $D; cp "$PATCH" $D/patch.diff; cp "$DEMO" $D/; 
python3 - "$ID" "$DK" "$OUT/meta$K.json" "$CAUGHT" "$CHECKS" "$PKG" <<'PY'
import json,sys
id,k,meta,caught,checks,pkg=sys.argv[1:7]
try: m=json.load(open(meta))
except Exception: m={}
m.update({"property":id,"demo_package_dir":pkg,"validated":"suite passes with patch; demo fails with patch and passes without (tools/seed.sh)","checks_run":checks.split(),"caught_by":caught.split()})
json.dump(m,open('/verif/seeded/%s-%s/meta.json'%(id,k),'w'),indent=1)
print("caught by:",caught or "NONE")
PY
