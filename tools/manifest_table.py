NA = {}
chk("C20", "exploration", "runtime reference-model monitor (exhaustive small scope + random + REPL callback)",
 "Every insertion sequence of two small word universes is run against trie.Trie and compared with a Go set on every query prefix (exhaustive over those universes), plus random longer words and REPL sessions whose completion callback is queried with every prefix.",
 "Trusts Go maps/sort as the reference; words longer than 3 bytes and REPL sessions are sampled, not enumerated.")
chk("C16", "exploration", "runtime tiling monitor over all short inputs (exhaustive <=4/<=5 bytes) + random + mutated corpus",
 "The real lexer is run on every byte string up to length 4 (thorough 5) over a 30-symbol alphabet in both modes, on random longer strings and on the mutated corpus; an independent scanner recomputes spans, string unescaping and comment extents and the monitor checks tiling, literal=bytes, sticky end marker, token count, interning and keyword classification.",
 "Span boundaries are derived from Lexer.Pos(); the reference string scanner fixes escape widths as documented in DESIGN.md; inputs longer than the exhaustive bound are sampled.")
